#!/bin/bash
# Experiment helper (never used by a registered command): confirm a candidate seeded change in a scratch rig.
#   tools/confirm_seeded.sh <rig-dir> <candidate-dir containing patch.diff, demo.rs> <crate: scpi|scpi-contrib> [extra cargo test flags...]
# 1. patch applied, demo absent: full suite     2. patch applied + demo: must fail     3. patch reverted + demo: must pass
set -u
rig="$1"; cand="$2"; crate="$3"; shift 3
cd "$rig/repo" || exit 2
git checkout -q -- . ; rm -f scpi/tests/seeded_demo.rs scpi-contrib/tests/seeded_demo.rs
export CARGO_TARGET_DIR="$rig/target" CARGO_NET_OFFLINE=true
git apply "$cand/patch.diff" || { echo "PATCH DOES NOT APPLY"; exit 2; }
echo "--- suite with change"
cargo test --workspace --no-fail-fast --offline 2>&1 | grep -E "^test result|FAILED|failed|error(\[|:)" | sort | uniq -c
cp "$cand/demo.rs" "$crate/tests/seeded_demo.rs"
echo "--- demo with change (must fail)"
cargo test -p "$crate" --test seeded_demo --offline "$@" 2>&1 | grep -E "^test result|^test .*FAILED|error(\[|:)" | head -20
git apply -R "$cand/patch.diff"
echo "--- demo without change (must pass)"
cargo test -p "$crate" --test seeded_demo --offline "$@" 2>&1 | grep -E "^test result|^test .*FAILED|error(\[|:)" | head -20
rm -f "$crate/tests/seeded_demo.rs"; git checkout -q -- .
git status --short | head
