#!/bin/bash
# Experiment rig (never used by a registered command): a private copy of /verif whose harness
# depends on a scratch git worktree of /repo, so seeded changes can be tried while /repo itself is
# in use by a long run.
#
#   tools/scratch_rig.sh setup  <dir>                       create <dir>/repo (worktree) and <dir>/verif (copy)
#   tools/scratch_rig.sh try    <dir> <patch.diff> <Cxx>... apply the patch to <dir>/repo, run the quick checks, undo
#   tools/scratch_rig.sh remove <dir>                       remove the worktree and the copy
set -u
cmd="$1"; dir="$2"; shift 2
case "$cmd" in
  setup)
    mkdir -p "$dir"
    git -C /repo worktree add --detach "$dir/repo" >/dev/null 2>&1 || { echo "cannot create worktree"; exit 2; }
    mkdir -p "$dir/verif"
    rsync -a --exclude harness/target --exclude replays --exclude .git /verif/ "$dir/verif/"
    sed -i "s#\"/repo/#\"$dir/repo/#" "$dir/verif/harness/Cargo.toml"
    echo "rig ready in $dir"
    ;;
  sync)
    rsync -a --exclude harness/target --exclude replays --exclude .git /verif/ "$dir/verif/"
    sed -i "s#\"/repo/#\"$dir/repo/#" "$dir/verif/harness/Cargo.toml"
    ;;
  try)
    patch="$1"; shift
    cd "$dir/repo" || exit 2
    if ! git diff --quiet; then echo "$dir/repo has uncommitted changes; refusing"; exit 2; fi
    if ! git apply --check "$patch" 2>/dev/null; then echo "patch does not apply"; exit 2; fi
    git apply "$patch"
    trap 'git -C "$dir/repo" checkout -- . ; echo "[scratch repo restored]"' EXIT
    cd "$dir/verif"
    for p in "$@"; do
      out=$(./check "$p" 2>&1); rc=$?
      echo "== $p rc=$rc"
      echo "$out" | grep -E "^(VIOLATION|  signature|BROKEN|INCONCLUSIVE|KNOWN|C[0-9]+ tier)" | cut -c1-400 | head -12
    done
    ;;
  remove)
    git -C /repo worktree remove --force "$dir/repo"
    rm -rf "$dir"
    ;;
esac
