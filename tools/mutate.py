#!/usr/bin/env python3
"""Experiment helper (never used by a registered command): operator mutants of /repo's sources against the release
workloads, to look for blind spots systematically (complements the hand-written seeded changes).

  tools/mutate.py <rig-dir> <n-mutants> <seed> [file-substring]

Needs a rig made by tools/scratch_rig.sh setup (<rig>/repo worktree, <rig>/verif copy whose harness depends on it).
For every sampled single-token mutant: apply to <rig>/repo; the existing suite must still pass (otherwise the mutant is
"killed by the suite" and uninteresting); then the release harness is rebuilt and the quick release workload of every
property mapped to the file is run; mutants without any violation are printed as SURVIVED (equivalent mutant or blind spot,
to be triaged by hand). Results are appended to <rig>/mutants.log. The worktree is restored after every mutant.
"""
import json, os, random, re, subprocess, sys

FILES = {
    "scpi/src/parser/tokenizer/mod.rs": ["C01", "C04", "C06", "C05"],
    "scpi/src/parser/tokenizer/util.rs": ["C03", "C02", "C20", "C04", "C01"],
    "scpi/src/parser/tokenizer/token.rs": ["C03", "C04"],
    "scpi/src/tree/mod.rs": ["C02", "C05", "C06", "C10", "C01", "C13"],
    "scpi/src/parser/parameters.rs": ["C06", "C07", "C08", "C01", "C17"],
    "scpi/src/parser/response/mod.rs": ["C09", "C10", "C11", "C05"],
    "scpi/src/parser/response/arrayformatter.rs": ["C11", "C05", "C10"],
    "scpi/src/parser/response/vecformatter.rs": ["C10", "C11", "C09"],
    "scpi/src/parser/expression/channel_list.rs": ["C19", "C01", "C14"],
    "scpi/src/parser/expression/numeric_list.rs": ["C19", "C01"],
    "scpi/src/parser/suffix.rs": ["C18", "C14", "C01"],
    "scpi/src/error.rs": ["C12", "C14", "C13", "C09"],
    "scpi-contrib/src/scpi1999/mod.rs": ["C15", "C16", "C13"],
    "scpi-contrib/src/scpi1999/numeric.rs": ["C17", "C14"],
    "scpi-contrib/src/scpi1999/status/mod.rs": ["C15", "C16"],
    "scpi-contrib/src/scpi1999/system/mod.rs": ["C13"],
    "scpi-contrib/src/scpi1999/system/error.rs": ["C13"],
    "scpi-contrib/src/ieee488/common.rs": ["C16", "C13"],
    "scpi-derive/src/lib.rs": ["C20", "C09", "C03"],
}

OPS = [
    (r"<=", "<"), (r">=", ">"), (r" < ", " <= "), (r" > ", " >= "), (r"==", "!="), (r"!=", "=="),
    (r"&&", "||"), (r"\|\|", "&&"), (r"\+ 1\b", "+ 2"), (r"- 1\b", "- 0"), (r"\+ 1\b", "- 1"), (r"\btrue\b", "false"), (r"\bfalse\b", "true"),
    (r"\|=", "="), (r"\b12\b", "13"), (r"\b13\b", "12"), (r"\b0x7fff\b", "0xffff"), (r"\b255\b", "254"), (r"\b0\b", "1"), (r"\b1\b", "0"),
    (r"\.is_some\(\)", ".is_none()"), (r"\.is_empty\(\)", ".is_empty() == false"), (r"!(?=[a-z(])", ""), (r"\.min\(", ".max("), (r"\.max\(", ".min("),
]


def code_lines(text):
    """indices of lines that are code outside test modules"""
    out = []
    in_test = False
    for i, l in enumerate(text.split("\n")):
        s = l.strip()
        if s.startswith("#[cfg(test)]") or re.match(r"mod tests?\b", s):
            in_test = True
        if in_test:
            continue
        if not s or s.startswith("//") or s.startswith("#[") or s.startswith("use ") or s.startswith("///") or "debug_assert" in s or "=>" in s and "ErrorCode::" in s and "b\"" in s:
            continue
        out.append(i)
    return out


def sh(cmd, cwd, env=None, timeout=3600):
    e = dict(os.environ)
    e["CARGO_NET_OFFLINE"] = "true"
    if env:
        e.update(env)
    p = subprocess.run(cmd, cwd=cwd, env=e, stdout=subprocess.PIPE, stderr=subprocess.STDOUT, text=True, timeout=timeout, shell=isinstance(cmd, str))
    return p.returncode, p.stdout


def main():
    rig, n, seed = sys.argv[1], int(sys.argv[2]), int(sys.argv[3])
    only = sys.argv[4] if len(sys.argv) > 4 else ""
    rng = random.Random(seed)
    repo = os.path.join(rig, "repo")
    harness = os.path.join(rig, "verif", "harness")
    log = open(os.path.join(rig, "mutants.log"), "a")
    sites = []
    for f in FILES:
        if only and only not in f:
            continue
        text = open(os.path.join(repo, f)).read()
        lines = text.split("\n")
        for i in code_lines(text):
            for k, (pat, rep) in enumerate(OPS):
                for m in re.finditer(pat, lines[i].split("//")[0]):
                    sites.append((f, i, k, m.start(), m.end()))
    rng.shuffle(sites)
    done = 0
    for f, i, k, a, b in sites:
        if done >= n:
            break
        path = os.path.join(repo, f)
        text = open(path).read()
        lines = text.split("\n")
        new = lines[i][:a] + OPS[k][1] + lines[i][b:]
        desc = "%s:%d  `%s`  ->  `%s`" % (f, i + 1, lines[i].strip()[:110], new.strip()[:110])
        lines[i] = new
        open(path, "w").write("\n".join(lines))
        try:
            rc, out = sh("cargo test --workspace --no-fail-fast --offline -q 2>&1 | tail -40", repo, {"CARGO_TARGET_DIR": os.path.join(rig, "target")})
            failed = ("FAILED" in out) or ("error" in out and "could not compile" in out) or ("error[" in out) or ("test result: FAILED" in out)
            if failed:
                kind = "compile-error" if "could not compile" in out or "error[" in out else "killed-by-suite"
                print("%-16s %s" % (kind, desc), flush=True)
                log.write("%s\t%s\n" % (kind, desc))
                continue
            done += 1
            rc, out = sh(["cargo", "build", "--release", "--offline", "--quiet"], harness)
            if rc != 0:
                print("harness-build-failed %s" % desc, flush=True)
                continue
            caught = []
            for p in FILES[f]:
                outp = os.path.join(rig, "mut.json")
                if os.path.exists(outp):
                    os.unlink(outp)
                try:
                    rc, out = sh([os.path.join(harness, "target", "release", "vh"), p, "--out", outp, "--hang-s", "20"], harness, timeout=900)
                except subprocess.TimeoutExpired:
                    caught.append(p + ":timeout")
                    break
                if rc == 3:
                    caught.append(p + ":suspect-hang")
                    break
                if rc != 0 or not os.path.exists(outp):
                    caught.append(p + ":harness-died(rc=%s)" % rc)
                    break
                r = json.load(open(outp))
                vc = {s: c for s, c in r["violation_counts"].items() if "library-parser-returns-doubled-quote" not in s}
                if vc:
                    caught.append(p + ":" + sorted(vc)[0])
                    break
            verdict = "caught" if caught else "SURVIVED"
            print("%-16s %s   %s" % (verdict, desc, caught[0] if caught else "(ran %s)" % ",".join(FILES[f])), flush=True)
            log.write("%s\t%s\t%s\n" % (verdict, desc, caught[0] if caught else ""))
            log.flush()
        finally:
            sh(["git", "checkout", "--", "."], repo)


main()
