#!/bin/bash
# usage: tools/try_seeded.sh <patch.diff> <Cxx> [<Cyy> ...]
# Applies a seeded change to /repo, runs the named checks (quick tier), prints their verdict lines,
# and restores /repo (git checkout -- .) whatever happens.
set -u
patch="$1"; shift
cd /repo || exit 2
if ! git diff --quiet; then echo "/repo has uncommitted changes; refusing"; exit 2; fi
if ! git apply --check "$patch" 2>/dev/null; then echo "patch does not apply"; exit 2; fi
git apply "$patch"
trap 'git -C /repo checkout -- . ; echo "[/repo restored]"' EXIT
cd /verif
for p in "$@"; do
  out=$(./check "$p" 2>&1); rc=$?
  echo "== $p rc=$rc"
  echo "$out" | grep -E "^(VIOLATION|  signature|BROKEN|INCONCLUSIVE|C[0-9]+ tier)" | cut -c1-400 | head -12
done
