//! vh — verification harness for scpi-rs (runtime monitoring).
//!
//! `vh <Cnn> [--tier quick|thorough] [--seed N] [--threads T] [--out FILE] [--only STAGE:INDEX]
//!     [--tiny] [--budget-s S] [--scale F] [--shard I/N] [--stages a,b] [--verbose]`
//!
//! Exit codes: 0 = run completed (violations, if any, are in the JSON report), 3 = watchdog
//! suspect (printed as SUSPECT-HANG), anything else = harness failure.

#![allow(clippy::all)]

#[macro_use]
extern crate uom;

pub mod alloc_count;
pub mod fw;
pub mod gen;
pub mod mon;
pub mod props;
pub mod refm;

use fw::{Cfg, Report, Tier};
use std::time::Instant;

#[global_allocator]
static GLOBAL: alloc_count::CountingAlloc = alloc_count::CountingAlloc;

fn main() {
    let args: Vec<String> = std::env::args().collect();
    if args.len() < 2 {
        eprintln!("usage: vh <Cnn> [options]");
        std::process::exit(2);
    }
    let prop = args[1].clone();
    let mut cfg = Cfg {
        prop: prop.clone(),
        tier: Tier::Quick,
        seed: 1,
        threads: 16,
        profile: if cfg!(debug_assertions) {
            "debug"
        } else {
            "release"
        },
        only: None,
        tiny: cfg!(miri),
        budget_s: 1e9,
        scale: 1.0,
        started: Instant::now(),
        shard: (0, 1),
        stages: vec![],
        hang_s: 20,
        verbose: false,
    };
    let mut out: Option<String> = None;
    let mut i = 2;
    while i < args.len() {
        let a = args[i].as_str();
        let val = |i: usize| -> String {
            args.get(i + 1)
                .cloned()
                .unwrap_or_else(|| panic!("missing value for {}", a))
        };
        match a {
            "--tier" => {
                cfg.tier = if val(i) == "thorough" {
                    Tier::Thorough
                } else {
                    Tier::Quick
                };
                i += 1;
            }
            "--seed" => {
                cfg.seed = val(i).parse().expect("seed");
                i += 1;
            }
            "--threads" => {
                cfg.threads = val(i).parse().expect("threads");
                i += 1;
            }
            "--out" => {
                out = Some(val(i));
                i += 1;
            }
            "--only" => {
                let v = val(i);
                let (s, n) = v.rsplit_once(':').expect("--only STAGE:INDEX");
                cfg.only = Some((s.to_string(), n.parse().expect("index")));
                i += 1;
            }
            "--tiny" => cfg.tiny = true,
            "--verbose" => cfg.verbose = true,
            "--budget-s" => {
                cfg.budget_s = val(i).parse().expect("budget");
                i += 1;
            }
            "--scale" => {
                cfg.scale = val(i).parse().expect("scale");
                i += 1;
            }
            "--hang-s" => {
                cfg.hang_s = val(i).parse().expect("hang");
                i += 1;
            }
            "--shard" => {
                let v = val(i);
                let (a, b) = v.split_once('/').expect("--shard I/N");
                cfg.shard = (a.parse().unwrap(), b.parse().unwrap());
                i += 1;
            }
            "--events" => {
                fw::open_event_log(&val(i));
                i += 1;
            }
            "--stages" => {
                cfg.stages = val(i).split(',').map(|s| s.to_string()).collect();
                i += 1;
            }
            _ => {
                eprintln!("unknown option {}", a);
                std::process::exit(2);
            }
        }
        i += 1;
    }
    if cfg.only.is_some() {
        cfg.verbose = true;
    }
    fw::install_panic_hook();
    fw::install_crash_handler();
    let t0 = Instant::now();
    let mut rep = Report::default();
    if !props::run(&cfg, &mut rep) {
        eprintln!("unknown property {}", prop);
        std::process::exit(2);
    }
    fw::close_event_log();
    let wall = t0.elapsed().as_secs_f64();
    let js = rep.to_json(&cfg, wall);
    match out {
        Some(p) => std::fs::write(&p, js).expect("write report"),
        None => println!("{}", js),
    }
}
