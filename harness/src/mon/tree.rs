//! Run-time construction of `scpi::tree::Node` trees from a specification.
//!
//! `Node` wants `&'static [u8]` names and `&'a` slices/handlers; the builder allocates them on the
//! heap, hands out references tied to the `Built` value and frees everything on drop.
use scpi::tree::prelude::*;

#[derive(Clone, Debug)]
pub struct Spec {
    pub name: Vec<u8>,
    pub default: bool,
    pub kind: SpecKind,
}

#[derive(Clone, Debug)]
pub enum SpecKind {
    /// index into the handler table
    Leaf(usize),
    Branch(Vec<Spec>),
}

impl Spec {
    pub fn leaf(name: &[u8], default: bool, h: usize) -> Spec {
        Spec { name: name.to_vec(), default, kind: SpecKind::Leaf(h) }
    }
    pub fn branch(name: &[u8], default: bool, sub: Vec<Spec>) -> Spec {
        Spec { name: name.to_vec(), default, kind: SpecKind::Branch(sub) }
    }
    pub fn describe(&self, out: &mut String, depth: usize) {
        use std::fmt::Write;
        let nm = String::from_utf8_lossy(&self.name);
        match &self.kind {
            SpecKind::Leaf(h) => {
                let _ = write!(out, "{}{}{}{}=h{} ", " ".repeat(0), if self.default { "[" } else { "" }, nm, if self.default { "]" } else { "" }, h);
            }
            SpecKind::Branch(sub) => {
                let _ = write!(out, "{}{}{}{{ ", if self.default { "[" } else { "" }, nm, if self.default { "]" } else { "" });
                for s in sub {
                    s.describe(out, depth + 1);
                }
                out.push_str("} ");
            }
        }
    }
}

pub struct Built<D: 'static + scpi::Device, H: Command<D> + 'static> {
    root: *mut Node<'static, D>,
    slices: Vec<*mut [Node<'static, D>]>,
    names: Vec<*mut [u8]>,
    handlers: Vec<*mut H>,
}

impl<D: 'static + scpi::Device, H: Command<D> + 'static> Built<D, H> {
    pub fn new(root_children: &[Spec], handlers: Vec<H>) -> Self {
        Self::new_named(b"", root_children, handlers)
    }

    /// the node `run` is called on carries a name of its own (a sub-tree used as a tree: `Branch!(b"CARD"; ...)`)
    pub fn new_named(top: &[u8], root_children: &[Spec], handlers: Vec<H>) -> Self {
        let mut b = Built { root: std::ptr::null_mut(), slices: vec![], names: vec![], handlers: vec![] };
        for h in handlers {
            b.handlers.push(Box::into_raw(Box::new(h)));
        }
        let sub = b.build_slice(root_children);
        let name = b.name(top);
        let root = Box::new(if top.is_empty() && root_children.len() % 2 == 0 { Node::root(sub) } else { Node::Branch { name, default: false, sub } });
        b.root = Box::into_raw(root);
        b
    }

    fn name(&mut self, n: &[u8]) -> &'static [u8] {
        let p: *mut [u8] = Box::into_raw(n.to_vec().into_boxed_slice());
        self.names.push(p);
        unsafe { &*p }
    }

    fn build_slice(&mut self, specs: &[Spec]) -> &'static [Node<'static, D>] {
        let mut v: Vec<Node<'static, D>> = Vec::with_capacity(specs.len());
        for s in specs {
            let name = self.name(&s.name);
            match &s.kind {
                SpecKind::Leaf(h) => {
                    let hp: *mut H = self.handlers[*h];
                    let handler: &'static dyn Command<D> = unsafe { &*hp };
                    // every other node is made with the library's const constructors instead of a struct literal
                    let via_ctor = (s.name.len() + v.len()) % 2 == 1;
                    v.push(if !via_ctor {
                        Node::Leaf { name, default: s.default, handler }
                    } else if s.default {
                        Node::default_leaf(name, handler)
                    } else {
                        Node::leaf(name, handler)
                    });
                }
                SpecKind::Branch(sub) => {
                    let sub = self.build_slice(sub);
                    let via_ctor = (s.name.len() + v.len()) % 2 == 1;
                    v.push(if !via_ctor {
                        Node::Branch { name, default: s.default, sub }
                    } else if s.default {
                        Node::default_branch(name, sub)
                    } else {
                        Node::branch(name, sub)
                    });
                }
            }
        }
        let p: *mut [Node<'static, D>] = Box::into_raw(v.into_boxed_slice());
        self.slices.push(p);
        unsafe { &*p }
    }

    pub fn root<'s>(&'s self) -> &'s Node<'s, D> {
        unsafe { &*self.root }
    }

    pub fn handler(&self, i: usize) -> &H {
        unsafe { &*self.handlers[i] }
    }
    pub fn n_handlers(&self) -> usize {
        self.handlers.len()
    }
}

impl<D: 'static + scpi::Device, H: Command<D> + 'static> Drop for Built<D, H> {
    fn drop(&mut self) {
        unsafe {
            if !self.root.is_null() {
                drop(Box::from_raw(self.root));
            }
            for p in self.slices.drain(..) {
                drop(Box::from_raw(p));
            }
            for p in self.names.drain(..) {
                drop(Box::from_raw(p));
            }
            for p in self.handlers.drain(..) {
                drop(Box::from_raw(p));
            }
        }
    }
}
