//! Recording device + scripted command handlers. Every observation is made on the harness side of
//! the public `Device` / `Command` traits; nothing is hooked inside the library.
use crate::refm::lexer::DKind;
use scpi::error::{Error, Result};
use scpi::parser::format::{Arbitrary, Character, Expression};
use scpi::parser::tokenizer::Token;
use scpi::tree::prelude::*;

#[derive(Clone, Debug, PartialEq)]
pub enum Ev {
    /// handler `h` invoked in query (true) or event (false) form
    Invoke { h: u32, query: bool },
    /// a data token was handed to the handler: payload pointers are absolute addresses
    Offer { kind: DKind, a: (usize, usize), b: (usize, usize), value: u64 },
    /// an optional pull found nothing
    PullNone,
    /// a pull returned an error
    PullErr(i16),
    /// handler returned
    Return { h: u32, err: Option<i16> },
}

#[derive(Default)]
pub struct Dev {
    pub log: Vec<Ev>,
    pub hook: Vec<Error>,
}

impl Device for Dev {
    fn handle_error(&mut self, err: Error) {
        self.hook.push(err);
    }
}

impl Dev {
    pub fn new() -> Self {
        Dev { log: Vec::with_capacity(64), hook: Vec::with_capacity(2) }
    }
    pub fn clear(&mut self) {
        self.log.clear();
        self.hook.clear();
    }
    pub fn invocations(&self) -> Vec<(u32, bool)> {
        self.log.iter().filter_map(|e| if let Ev::Invoke { h, query } = e { Some((*h, *query)) } else { None }).collect()
    }
}

pub fn offer_of(t: &Token) -> Option<Ev> {
    let r = |s: &[u8]| (s.as_ptr() as usize, s.len());
    Some(match t {
        Token::CharacterProgramData(s) => Ev::Offer { kind: DKind::Char, a: r(s), b: (0, 0), value: 0 },
        Token::DecimalNumericProgramData(s) => Ev::Offer { kind: DKind::Dec, a: r(s), b: (0, 0), value: 0 },
        Token::DecimalNumericSuffixProgramData(s, x) => Ev::Offer { kind: DKind::DecSuffix, a: r(s), b: r(x), value: 0 },
        Token::NonDecimalNumericProgramData(v) => Ev::Offer { kind: DKind::NonDec, a: (0, 0), b: (0, 0), value: *v },
        Token::StringProgramData(s) => Ev::Offer { kind: DKind::Str, a: r(s), b: (0, 0), value: 0 },
        Token::ArbitraryBlockData(s) => Ev::Offer { kind: DKind::Block, a: r(s), b: (0, 0), value: 0 },
        Token::ExpressionProgramData(s) => Ev::Offer { kind: DKind::Expr, a: r(s), b: (0, 0), value: 0 },
        _ => return None,
    })
}

/// What a scripted handler does with one parameter position.
#[derive(Clone, Copy, Debug, PartialEq, Eq)]
pub struct Pull {
    pub optional: bool,
    pub conv: Conv,
}

/// Typed conversion applied to the pulled token (Token = none, just record it)
#[derive(Clone, Copy, Debug, PartialEq, Eq)]
pub enum Conv {
    Token,
    U8, I8, U16, I16, U32, I32, U64, I64, Usize, Isize,
    F32, F64, Bool, Bytes, Str, Arb, Chr, Expr,
    NumList, ChanList,
    Volt, Freq, Time, Temp,
    AmplVolt, DbVolt,
    NumericI32, NumericF32,
    EnumQ, Auto,
}

pub const ALL_CONVS: &[Conv] = &[
    Conv::Token, Conv::U8, Conv::I8, Conv::U16, Conv::I16, Conv::U32, Conv::I32, Conv::U64, Conv::I64, Conv::Usize, Conv::Isize,
    Conv::F32, Conv::F64, Conv::Bool, Conv::Bytes, Conv::Str, Conv::Arb, Conv::Chr, Conv::Expr, Conv::NumList, Conv::ChanList,
    Conv::Volt, Conv::Freq, Conv::Time, Conv::Temp, Conv::AmplVolt, Conv::DbVolt, Conv::NumericI32, Conv::NumericF32, Conv::EnumQ, Conv::Auto,
];

/// Apply a conversion; returns Err(code) like a handler using `?` would propagate.
pub fn apply_conv(c: Conv, t: Token) -> core::result::Result<(), Error> {
    use scpi::parser::expression::{channel_list::ChannelList, numeric_list::NumericList};
    use scpi::parser::suffix::{Amplitude, Db};
    use scpi::units::uom::si::f32::{ElectricPotential, Frequency, ThermodynamicTemperature, Time};
    use scpi_contrib::scpi1999::{NumericValue, NumericValueQuery};
    macro_rules! tf {
        ($t:ty) => {
            <$t>::try_from(t).map(|_| ())
        };
    }
    match c {
        Conv::Token => Ok(()),
        Conv::U8 => tf!(u8),
        Conv::I8 => tf!(i8),
        Conv::U16 => tf!(u16),
        Conv::I16 => tf!(i16),
        Conv::U32 => tf!(u32),
        Conv::I32 => tf!(i32),
        Conv::U64 => tf!(u64),
        Conv::I64 => tf!(i64),
        Conv::Usize => tf!(usize),
        Conv::Isize => tf!(isize),
        Conv::F32 => tf!(f32),
        Conv::F64 => tf!(f64),
        Conv::Bool => tf!(bool),
        Conv::Bytes => tf!(&[u8]),
        Conv::Str => tf!(&str),
        Conv::Arb => tf!(Arbitrary),
        Conv::Chr => tf!(Character),
        Conv::Expr => tf!(Expression),
        Conv::NumList => {
            let l = NumericList::try_from(t)?;
            // iterate up to the first error (iterating past an error is outside every property)
            for (i, item) in l.enumerate() {
                item?;
                if i > 4096 {
                    break;
                }
            }
            Ok(())
        }
        Conv::ChanList => {
            let l = ChannelList::try_from(t)?;
            for (i, item) in l.enumerate() {
                let item = item.map_err(Error::new)?;
                use scpi::parser::expression::channel_list::Token as CT;
                // no heap allocation here: C11 counts allocations around handlers that run this code
                let specs: [Option<_>; 2] = match item {
                    CT::ChannelSpec(a) => [Some(a), None],
                    CT::ChannelRange(a, b) => [Some(a), Some(b)],
                    _ => [None, None],
                };
                for s in specs.into_iter().flatten() {
                    for (j, d) in s.into_iter().enumerate() {
                        if d.is_err() || j > 64 {
                            break;
                        }
                    }
                    let _ = isize::try_from(s);
                    let _ = usize::try_from(s);
                    let _ = <(isize, isize)>::try_from(s);
                    let _ = <(usize, usize)>::try_from(s);
                    let _ = <(isize, isize, isize)>::try_from(s);
                    let _ = <(usize, usize, usize)>::try_from(s);
                }
                if i > 4096 {
                    break;
                }
            }
            Ok(())
        }
        Conv::Volt => tf!(ElectricPotential),
        Conv::Freq => tf!(Frequency),
        Conv::Time => tf!(Time),
        Conv::Temp => tf!(ThermodynamicTemperature),
        Conv::AmplVolt => <Amplitude<ElectricPotential>>::try_from(t).map(|_| ()),
        Conv::DbVolt => <Db<f32, ElectricPotential>>::try_from(t).map(|_| ()),
        Conv::NumericI32 => {
            let v = <NumericValue<i32>>::try_from(t)?;
            v.build().max(1000).min(-1000).default(7).finish().map(|_| ())
        }
        Conv::NumericF32 => {
            let v = <NumericValue<f32>>::try_from(t)?;
            v.finish_with(1e6, -1e6).map(|_| ())
        }
        Conv::EnumQ => tf!(NumericValueQuery),
        Conv::Auto => <scpi_contrib::scpi1999::util::Auto>::try_from(t).map(|_| ()),
    }
}

/// A response datum a scripted query emits.
#[derive(Clone, Debug, PartialEq)]
pub enum Val {
    U8(u8),
    I16(i16),
    U32(u32),
    I64(i64),
    Usize(usize),
    F32(f32),
    F64(f64),
    Bool(bool),
    Str(&'static [u8]),
    Arb(&'static [u8]),
    Utf8(&'static str),
    Chr(&'static [u8]),
    Expr(&'static [u8]),
    Hex(u16),
    Bin(u8),
    Oct(u32),
    ListI32(Vec<i32>),
    /// fixed-capacity list: cloning it does not touch the heap (used where allocations are counted)
    ArrList(arrayvec::ArrayVec<i32, 8>),
    Enum(crate::props::enums_fixed::Fmt),
    Err(Error),
}

pub fn put_val(r: &mut ResponseUnit, v: &Val) {
    use scpi::parser::format::{Binary, Hex, Octal};
    match v {
        Val::U8(x) => r.data(*x),
        Val::I16(x) => r.data(*x),
        Val::U32(x) => r.data(*x),
        Val::I64(x) => r.data(*x),
        Val::Usize(x) => r.data(*x),
        Val::F32(x) => r.data(*x),
        Val::F64(x) => r.data(*x),
        Val::Bool(x) => r.data(*x),
        Val::Str(x) => r.data(*x),
        Val::Arb(x) => r.data(Arbitrary(x)),
        Val::Utf8(x) => r.data(*x),
        Val::Chr(x) => r.data(Character(x)),
        Val::Expr(x) => r.data(Expression(x)),
        Val::Hex(x) => r.data(Hex(*x)),
        Val::Bin(x) => r.data(Binary(*x)),
        Val::Oct(x) => r.data(Octal(*x)),
        Val::ListI32(x) => r.data(x.clone()),
        Val::ArrList(x) => r.data(x.clone()),
        Val::Enum(x) => r.data(*x),
        Val::Err(x) => r.data(*x),
    };
}

/// Format one value into a given formatter (whatever it already holds)
pub fn val_fmt(v: &Val, out: &mut dyn scpi::parser::response::Formatter) -> core::result::Result<(), Error> {
    use scpi::parser::format::{Binary, Hex, Octal};
    use scpi::parser::response::ResponseData;
    match v {
        Val::U8(x) => x.format_response_data(out),
        Val::I16(x) => x.format_response_data(out),
        Val::U32(x) => x.format_response_data(out),
        Val::I64(x) => x.format_response_data(out),
        Val::Usize(x) => x.format_response_data(out),
        Val::F32(x) => x.format_response_data(out),
        Val::F64(x) => x.format_response_data(out),
        Val::Bool(x) => x.format_response_data(out),
        Val::Str(x) => x.format_response_data(out),
        Val::Arb(x) => Arbitrary(x).format_response_data(out),
        Val::Utf8(x) => x.format_response_data(out),
        Val::Chr(x) => Character(x).format_response_data(out),
        Val::Expr(x) => Expression(x).format_response_data(out),
        Val::Hex(x) => Hex(*x).format_response_data(out),
        Val::Bin(x) => Binary(*x).format_response_data(out),
        Val::Oct(x) => Octal(*x).format_response_data(out),
        Val::ListI32(x) => x.format_response_data(out),
        Val::ArrList(x) => x.format_response_data(out),
        Val::Enum(x) => x.format_response_data(out),
        Val::Err(x) => x.format_response_data(out),
    }
}

/// Format one value alone with a growable formatter (the reference text of that datum)
pub fn val_text(v: &Val) -> core::result::Result<Vec<u8>, Error> {
    let mut out: Vec<u8> = Vec::new();
    val_fmt(v, &mut out)?;
    Ok(out)
}

/// Scripted handler.
#[derive(Clone, Debug, Default)]
pub struct Script {
    pub id: u32,
    pub pulls: Vec<Pull>,
    /// pull optional tokens until none is left (after `pulls`)
    pub omnivore: bool,
    /// error returned after the pulls (fault injection)
    pub fail: Option<Error>,
    /// response headers and data emitted by the query form
    pub headers: Vec<&'static [u8]>,
    pub emit: Vec<Val>,
    /// return `fail` before looking at any parameter (a handler refusing up front, e.g. wrong instrument state),
    /// leaving the unit's data unread
    pub fail_before_pulls: bool,
    /// a handler that does not propagate a failed parameter request other than -109 (`if let Ok(..)`, defaulting):
    /// it stops asking and completes normally; a lexical error in its unit must still fail the message
    pub tolerant: bool,
    /// refuse one of the forms with -113 like the library's default stubs do
    pub no_query: bool,
    pub no_event: bool,
    /// what `Command::meta()` answers (0 Unknown, 1 NoQuery, 2 QueryOnly, 3 Both): documented as a hint for help /
    /// autocompletion that is "not actually binding in any way", so it may say anything about a command that
    /// implements both forms
    pub meta_hint: u8,
    /// a query handler written with a per-item helper: `finish()` is called after every datum (result dropped) and
    /// once more at the end, whose result is returned - the outcome must be the same as with a single `finish()`
    pub finish_each: bool,
    /// query form only: `fail` is not returned by the handler itself but raised by a response datum of a user-defined
    /// type whose `format_response_data` refuses (the handler propagates `finish()`); the message must fail with
    /// exactly that error, extended text included
    pub fail_via_response: bool,
    /// a query handler that writes its data and returns its own `Ok(())` without calling `finish()` (nothing failed, so
    /// there is nothing to propagate): its answer is part of the response like any other
    pub skip_finish: bool,
}

/// user-defined response data that cannot be formatted
pub struct FailingDatum(pub Error);
impl scpi::parser::response::ResponseData for FailingDatum {
    fn format_response_data(&self, _f: &mut dyn scpi::parser::response::Formatter) -> Result<()> {
        Err(self.0)
    }
}

impl Script {
    fn pulls(&self, dev: &mut Dev, params: &mut Parameters, query: bool) -> Result<()> {
        let via_response = query && self.fail_via_response;
        if let (Some(e), true, false) = (self.fail, self.fail_before_pulls, via_response) {
            return Err(e);
        }
        for p in &self.pulls {
            let tok = if p.optional {
                match params.next_optional_token() {
                    Ok(Some(t)) => t,
                    Ok(None) => {
                        dev.log.push(Ev::PullNone);
                        continue;
                    }
                    Err(e) => {
                        dev.log.push(Ev::PullErr(e.get_code()));
                        if self.tolerant && e.get_code() != -109 {
                            return if via_response { Ok(()) } else { self.fail.map_or(Ok(()), Err) };
                        }
                        return Err(e);
                    }
                }
            } else {
                match params.next_token() {
                    Ok(t) => t,
                    Err(e) => {
                        dev.log.push(Ev::PullErr(e.get_code()));
                        if self.tolerant && e.get_code() != -109 {
                            return if via_response { Ok(()) } else { self.fail.map_or(Ok(()), Err) };
                        }
                        return Err(e);
                    }
                }
            };
            if let Some(o) = offer_of(&tok) {
                dev.log.push(o);
            }
            apply_conv(p.conv, tok)?;
        }
        if self.omnivore {
            let mut n = 0;
            loop {
                match params.next_optional_token() {
                    Ok(Some(t)) => {
                        if let Some(o) = offer_of(&t) {
                            dev.log.push(o);
                        }
                    }
                    Ok(None) => break,
                    Err(e) => {
                        dev.log.push(Ev::PullErr(e.get_code()));
                        if self.tolerant && e.get_code() != -109 {
                            break;
                        }
                        return Err(e);
                    }
                }
                n += 1;
                if n > 1_000_000 {
                    // reported by the property modules through this marker (never a harness panic)
                    dev.log.push(Ev::PullErr(i16::MIN));
                    break;
                }
            }
        }
        if let (Some(e), false) = (self.fail, via_response) {
            return Err(e);
        }
        Ok(())
    }
}

/// A command that defines neither form: both calls end in the library's documented default stubs.
pub struct Stub;
impl Command<Dev> for Stub {}

impl Command<Dev> for Script {
    fn meta(&self) -> CommandTypeMeta {
        match self.meta_hint {
            1 => CommandTypeMeta::NoQuery,
            2 => CommandTypeMeta::QueryOnly,
            3 => CommandTypeMeta::Both,
            _ => CommandTypeMeta::Unknown,
        }
    }
    fn event(&self, dev: &mut Dev, c: &mut Context, mut params: Parameters) -> Result<()> {
        if self.no_event {
            // form not defined by this command: the library's own default stub answers (no handler code runs,
            // so no invocation is logged)
            return Command::<Dev>::event(&Stub, dev, c, params);
        }
        dev.log.push(Ev::Invoke { h: self.id, query: false });
        let r = self.pulls(dev, &mut params, false);
        dev.log.push(Ev::Return { h: self.id, err: r.err().map(|e| e.get_code()) });
        r
    }
    fn query(&self, dev: &mut Dev, c: &mut Context, mut params: Parameters, mut resp: ResponseUnit) -> Result<()> {
        if self.no_query {
            return Command::<Dev>::query(&Stub, dev, c, params, resp);
        }
        dev.log.push(Ev::Invoke { h: self.id, query: true });
        let r = if false {
            Err(ErrorCode::UndefinedHeader.into())
        } else {
            self.pulls(dev, &mut params, true).and_then(|_| {
                for h in &self.headers {
                    resp.header(h);
                }
                if let (Some(e), true) = (self.fail, self.fail_via_response) {
                    // somewhere among the data: first, or behind the first datum
                    if let Some(v) = self.emit.first() {
                        if e.get_code() % 2 == 0 {
                            put_val(&mut resp, v);
                        }
                    }
                    resp.data(FailingDatum(e));
                }
                for v in &self.emit {
                    put_val(&mut resp, v);
                    if self.finish_each {
                        let _ = resp.finish();
                    }
                }
                if self.skip_finish && self.fail.is_none() {
                    return Ok(());
                }
                resp.finish()
            })
        };
        dev.log.push(Ev::Return { h: self.id, err: r.err().map(|e| e.get_code()) });
        r
    }
}
