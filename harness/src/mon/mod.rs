//! Monitors: recording device / handlers / formatters
