//! Monitors: recording device, scripted handlers, run-time command trees, fault-injecting formatter.
pub mod dev;
pub mod tree;
pub mod capdispatch;
pub mod scpidev;
