//! A device wired exactly like scpi-contrib/examples/minimal_scpi.rs (handle_error -> push_error,
//! stb -> scpi_stb, cls -> scpi_cls, opc -> scpi_opc), generic over the error-queue back-end,
//! plus harness commands whose handlers *return* errors (they never call the hook themselves).
use scpi::error::{Error, ErrorCode, ErrorQueue, Result};
use scpi::tree::prelude::*;
use scpi_contrib::ieee488::prelude::*;
use scpi_contrib::scpi1999::prelude::*;
use std::collections::VecDeque;

pub struct StdDev<Q> {
    pub esr: u8,
    pub ese: u8,
    pub sre: u8,
    pub operation: EventRegister,
    pub questionable: EventRegister,
    pub errors: Q,
    /// what `*TST?` finds
    pub tst: Option<Error>,
    pub rst_calls: u32,
    /// what the device answers to a bus trigger (`*TRG`): accepted, or refused with this error
    pub trg: Option<Error>,
    pub trg_calls: u32,
}

impl<Q: Default> StdDev<Q> {
    pub fn new() -> Self {
        StdDev { esr: 0, ese: 0, sre: 0, operation: EventRegister::default(), questionable: EventRegister::default(), errors: Q::default(), tst: None, rst_calls: 0, trg: None, trg_calls: 0 }
    }
}

/// queue back-ends
pub trait QueueBackend: Default {
    fn q_push(&mut self, e: Error);
    fn q_pop(&mut self) -> Option<Error>;
    fn q_len(&self) -> usize;
    fn q_clear(&mut self);
    fn snapshot(&self) -> Vec<Error>;
    const NAME: &'static str;
    const CAP: Option<usize>;
}

impl QueueBackend for VecDeque<Error> {
    fn q_push(&mut self, e: Error) {
        self.push_back(e)
    }
    fn q_pop(&mut self) -> Option<Error> {
        self.pop_front()
    }
    fn q_len(&self) -> usize {
        self.len()
    }
    fn q_clear(&mut self) {
        self.clear()
    }
    fn snapshot(&self) -> Vec<Error> {
        self.iter().copied().collect()
    }
    const NAME: &'static str = "VecDeque<Error> (as in the example)";
    const CAP: Option<usize> = None;
}

impl QueueBackend for Vec<Error> {
    fn q_push(&mut self, e: Error) {
        ErrorQueue::push_back_error(self, e)
    }
    fn q_pop(&mut self) -> Option<Error> {
        ErrorQueue::pop_front_error(self)
    }
    fn q_len(&self) -> usize {
        ErrorQueue::num_errors(self)
    }
    fn q_clear(&mut self) {
        ErrorQueue::clear_errors(self)
    }
    fn snapshot(&self) -> Vec<Error> {
        self.clone()
    }
    const NAME: &'static str = "Vec<Error> (library ErrorQueue impl)";
    const CAP: Option<usize> = None;
}

impl QueueBackend for arrayvec::ArrayVec<Error, 64> {
    fn q_push(&mut self, e: Error) {
        ErrorQueue::push_back_error(self, e)
    }
    fn q_pop(&mut self) -> Option<Error> {
        ErrorQueue::pop_front_error(self)
    }
    fn q_len(&self) -> usize {
        ErrorQueue::num_errors(self)
    }
    fn q_clear(&mut self) {
        ErrorQueue::clear_errors(self)
    }
    fn snapshot(&self) -> Vec<Error> {
        self.iter().copied().collect()
    }
    const NAME: &'static str = "ArrayVec<Error,64> (library ErrorQueue impl)";
    const CAP: Option<usize> = Some(64);
}

impl<Q: QueueBackend> Device for StdDev<Q> {
    fn handle_error(&mut self, err: Error) {
        self.push_error(err)
    }
}

impl<Q: QueueBackend> IEEE4882 for StdDev<Q> {
    fn stb(&self) -> u8 {
        self.scpi_stb()
    }
    fn sre(&self) -> u8 {
        self.sre
    }
    fn set_sre(&mut self, value: u8) {
        self.sre = value
    }
    fn esr(&self) -> u8 {
        self.esr
    }
    fn set_esr(&mut self, value: u8) {
        self.esr = value
    }
    fn ese(&self) -> u8 {
        self.ese
    }
    fn set_ese(&mut self, value: u8) {
        self.ese = value
    }
    fn tst(&mut self) -> Result<()> {
        match self.tst {
            None => Ok(()),
            Some(e) => Err(e),
        }
    }
    fn rst(&mut self) -> Result<()> {
        self.rst_calls += 1;
        Ok(())
    }
    fn cls(&mut self) -> Result<()> {
        self.scpi_cls()
    }
    fn opc(&mut self) -> Result<()> {
        self.scpi_opc()
    }
}

impl<Q: QueueBackend> GetEventRegister<Operation> for StdDev<Q> {
    fn register(&self) -> &EventRegister {
        &self.operation
    }
    fn register_mut(&mut self) -> &mut EventRegister {
        &mut self.operation
    }
}

impl<Q: QueueBackend> GetEventRegister<Questionable> for StdDev<Q> {
    fn register(&self) -> &EventRegister {
        &self.questionable
    }
    fn register_mut(&mut self) -> &mut EventRegister {
        &mut self.questionable
    }
}

impl<Q: QueueBackend> ErrorQueue for StdDev<Q> {
    fn push_back_error(&mut self, err: Error) {
        self.errors.q_push(err)
    }
    fn pop_front_error(&mut self) -> Option<Error> {
        self.errors.q_pop()
    }
    fn num_errors(&self) -> usize {
        self.errors.q_len()
    }
    fn clear_errors(&mut self) {
        self.errors.q_clear()
    }
}

impl<Q: QueueBackend> ScpiDevice for StdDev<Q> {}

impl<Q: QueueBackend> scpi_contrib::ieee488::trg::CommonTrg for StdDev<Q> {
    fn trig_bus(&mut self) -> Result<()> {
        self.trg_calls += 1;
        match self.trg {
            None => Ok(()),
            Some(e) => Err(e),
        }
    }
}

/// errors the harness `TEST:FAIL <n>` command returns (every class, with and without extended text)
pub fn fail_table() -> &'static [Error] {
    use std::sync::OnceLock;
    static T: OnceLock<Vec<Error>> = OnceLock::new();
    T.get_or_init(|| {
        vec![
            Error::new(ErrorCode::CommandError),
            Error::new(ErrorCode::DataTypeError),
            Error::new(ErrorCode::ExecutionError),
            Error::new(ErrorCode::DataOutOfRange),
            Error::new(ErrorCode::IllegalParameterValue).extended(b"not in set"),
            Error::new(ErrorCode::DeviceSpecificError),
            Error::new(ErrorCode::SelfTestFailed).extended(b"adc offset"),
            Error::new(ErrorCode::QueueOverflow),
            Error::new(ErrorCode::QueryError),
            Error::new(ErrorCode::QueryInterrupted),
            Error::new(ErrorCode::PowerOn),
            Error::new(ErrorCode::UserRequest),
            Error::new(ErrorCode::RequestControl),
            Error::new(ErrorCode::OperationComplete),
            Error::custom(1, b"Custom one"),
            Error::custom(32767, b"Custom max").extended(b"with detail"),
            Error::custom(-399, b"Custom device specific"),
            Error::custom(-1000, b"Below every class"),
            Error::new(ErrorCode::HardwareError),
            Error::new(ErrorCode::OutOfMemory),
            // "no error" raised as an error by a handler: still the error of its message (class: none)
            Error::new(ErrorCode::NoError),
            Error::custom(0, b"Zero"),
        ]
        .into_iter()
        // device-defined numbers at and next to every class boundary, positive mirror images of the SCPI classes,
        // and far-away values (the class of a number is decided by refm/errclass.rs, not by this table)
        .chain(
            [
                99i16, 100, 101, 150, 199, 200, 250, 299, 300, 399, 400, 450, 499, 500, 599, 600, 699, 700, 799, 800, 850, 899, 900, 1000, 12345, -1, -99, -100, -101, -199, -200, -201, -299, -300, -301, -398, -400, -401,
                -499, -500, -501, -599, -600, -699, -700, -799, -800, -801, -899, -900, -901, -25600, -25700, -26000, -26499, -32768,
            ]
            .into_iter()
            .map(|c| Error::custom(c, b"Device defined")),
        )
        .collect::<Vec<Error>>()
    })
}

pub struct FailCommand;
impl<Q: QueueBackend> Command<StdDev<Q>> for FailCommand {
    fn event(&self, _d: &mut StdDev<Q>, _c: &mut Context, mut p: Parameters) -> Result<()> {
        let n: usize = p.next_data()?;
        Err(*fail_table().get(n).ok_or(ErrorCode::IllegalParameterValue)?)
    }
    fn query(&self, _d: &mut StdDev<Q>, _c: &mut Context, mut p: Parameters, _r: ResponseUnit) -> Result<()> {
        let n: usize = p.next_data()?;
        Err(*fail_table().get(n).ok_or(ErrorCode::IllegalParameterValue)?)
    }
}

pub struct NopCommand;
impl<Q: QueueBackend> Command<StdDev<Q>> for NopCommand {
    fn event(&self, _d: &mut StdDev<Q>, _c: &mut Context, _p: Parameters) -> Result<()> {
        Ok(())
    }
    fn query(&self, _d: &mut StdDev<Q>, _c: &mut Context, _p: Parameters, mut r: ResponseUnit) -> Result<()> {
        r.data(7u8).finish()
    }
}

/// tree = ieee488_*!() + scpi_status!() + scpi_system!() + TEST:FAIL / TEST:NOP
pub trait HasTree: Sized + scpi::Device + 'static {
    const TREE: Node<'static, Self>;
    /// the same commands, the common (`*`) ones kept in a shared optional branch below the root
    const TREE_NESTED: Node<'static, Self>;
    /// the STATus subsystem assembled by hand from the documented per-register command types
    /// (`StatOperEventCommand`, `StatQuesPTransitionCommand` ...) instead of `scpi_status!()`
    const TREE_TYPED: Node<'static, Self>;
}

impl<Q: QueueBackend + 'static> HasTree for StdDev<Q> {
    const TREE: Node<'static, Self> = {
        use scpi_contrib::{ieee488_cls, ieee488_ese, ieee488_esr, ieee488_idn, ieee488_opc, ieee488_rst, ieee488_sre, ieee488_stb, ieee488_tst, ieee488_wai, scpi_status, scpi_system};
        Branch {
            name: b"",
            default: false,
            sub: &[
                ieee488_cls!(),
                ieee488_ese!(),
                ieee488_esr!(),
                ieee488_idn!(b"VERIF", b"HARNESS", b"0", b"1"),
                ieee488_opc!(),
                ieee488_rst!(),
                ieee488_sre!(),
                ieee488_stb!(),
                ieee488_tst!(),
                ieee488_wai!(),
                Leaf { name: b"*TRG", default: false, handler: &scpi_contrib::ieee488::trg::TrgCommand },
                // the STATus subsystem written with the extended arm of `scpi_register!` (register + device-specific nodes)
                Branch {
                    name: b"STATus",
                    default: false,
                    sub: &[
                        scpi_contrib::scpi_register!(b"OPERation", scpi_contrib::scpi1999::status::operation::Operation; Leaf { name: b"XTRA", default: false, handler: &NopCommand }),
                        scpi_contrib::scpi_register!(b"QUEStionable", scpi_contrib::scpi1999::status::questionable::Questionable; Leaf { name: b"XTRA", default: false, handler: &NopCommand }, Leaf { name: b"MORE", default: false, handler: &NopCommand }),
                        Leaf { name: b"PRESet", default: false, handler: &scpi_contrib::scpi1999::status::StatPresetCommand },
                    ],
                },
                scpi_system!(),
                Branch {
                    name: b"TEST",
                    default: false,
                    sub: &[Leaf { name: b"FAIL", default: false, handler: &FailCommand }, Leaf { name: b"NOP", default: false, handler: &NopCommand }],
                },
            ],
        }
    };
    const TREE_TYPED: Node<'static, Self> = {
        use scpi_contrib::scpi1999::status::operation::{StatOperConditionCommand, StatOperEnableCommand, StatOperEventCommand, StatOperNTransitionCommand, StatOperPTransitionCommand};
        use scpi_contrib::scpi1999::status::questionable::{StatQuesConditionCommand, StatQuesEnableCommand, StatQuesEventCommand, StatQuesNTransitionCommand, StatQuesPTransitionCommand};
        use scpi_contrib::scpi1999::status::StatPresetCommand;
        use scpi_contrib::{ieee488_cls, ieee488_ese, ieee488_esr, ieee488_idn, ieee488_opc, ieee488_rst, ieee488_sre, ieee488_stb, ieee488_tst, ieee488_wai, scpi_system};
        Branch {
            name: b"",
            default: false,
            sub: &[
                ieee488_cls!(),
                ieee488_ese!(),
                ieee488_esr!(),
                ieee488_idn!(b"", b"HARNESS", b"", b"1"),
                ieee488_opc!(),
                ieee488_rst!(),
                ieee488_sre!(),
                ieee488_stb!(),
                ieee488_tst!(),
                ieee488_wai!(),
                Leaf { name: b"*TRG", default: false, handler: &scpi_contrib::ieee488::trg::TrgCommand },
                Branch {
                    name: b"STATus",
                    default: false,
                    sub: &[
                        Branch {
                            name: b"OPERation",
                            default: false,
                            sub: &[
                                Leaf { name: b"EVENt", default: true, handler: &StatOperEventCommand::new() },
                                Leaf { name: b"CONDition", default: false, handler: &StatOperConditionCommand::new() },
                                Leaf { name: b"ENABle", default: false, handler: &StatOperEnableCommand::new() },
                                Leaf { name: b"NTRansition", default: false, handler: &StatOperNTransitionCommand::new() },
                                Leaf { name: b"PTRansition", default: false, handler: &StatOperPTransitionCommand::new() },
                            ],
                        },
                        Branch {
                            name: b"QUEStionable",
                            default: false,
                            sub: &[
                                Leaf { name: b"EVENt", default: true, handler: &StatQuesEventCommand::new() },
                                Leaf { name: b"CONDition", default: false, handler: &StatQuesConditionCommand::new() },
                                Leaf { name: b"ENABle", default: false, handler: &StatQuesEnableCommand::new() },
                                Leaf { name: b"NTRansition", default: false, handler: &StatQuesNTransitionCommand::new() },
                                Leaf { name: b"PTRansition", default: false, handler: &StatQuesPTransitionCommand::new() },
                            ],
                        },
                        Leaf { name: b"PRESet", default: false, handler: &StatPresetCommand },
                    ],
                },
                scpi_system!(),
                Branch {
                    name: b"TEST",
                    default: false,
                    sub: &[Leaf { name: b"FAIL", default: false, handler: &FailCommand }, Leaf { name: b"NOP", default: false, handler: &NopCommand }],
                },
            ],
        }
    };
    const TREE_NESTED: Node<'static, Self> = {
        use scpi_contrib::{ieee488_cls, ieee488_ese, ieee488_esr, ieee488_idn, ieee488_opc, ieee488_rst, ieee488_sre, ieee488_stb, ieee488_tst, ieee488_wai, scpi_status, scpi_system};
        Branch {
            name: b"",
            default: false,
            sub: &[
                Branch {
                    name: b"MANDated",
                    default: true,
                    sub: &[
                        ieee488_cls!(),
                        ieee488_ese!(),
                        ieee488_esr!(),
                        ieee488_idn!(b"VERIF", b"HARNESS", b"0", b"1"),
                        ieee488_opc!(),
                        ieee488_rst!(),
                        ieee488_sre!(),
                        ieee488_stb!(),
                        ieee488_tst!(),
                        ieee488_wai!(),
                        Leaf { name: b"*TRG", default: false, handler: &scpi_contrib::ieee488::trg::TrgCommand },
                    ],
                },
                scpi_status!(),
                scpi_system!(),
                Branch {
                    name: b"TEST",
                    default: false,
                    sub: &[Leaf { name: b"FAIL", default: false, handler: &FailCommand }, Leaf { name: b"NOP", default: false, handler: &NopCommand }],
                },
            ],
        }
    };
}
