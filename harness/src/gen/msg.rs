//! Grammar-directed generation of data elements and message text (IEEE 488.2 section 7).
use crate::fw::Rng;
use crate::refm::lexer::DKind;

pub const WS: &[u8] = b" \t\r\x0c";

pub const SUFFIX_POOL: &[&str] = &[
    "V", "MV", "KV", "UV", "A", "MA", "UA", "NA", "KA", "HZ", "KHZ", "MHZ", "GHZ", "MAHZ", "S", "MS", "US", "NS", "MIN", "HR", "D", "OHM", "KOHM", "MOHM", "GOHM",
    "W", "MW", "KW", "MAW", "DBM", "DBV", "DBMV", "DB", "PCT", "PPM", "CEL", "FAR", "K", "F", "UF", "NF", "PF", "H", "MH", "UH", "J", "KJ", "MJ", "MAJ", "RAD", "DEG",
    "VPK", "VPP", "VRMS", "V/S", "M/S2", "A.HR", "W.HR", "KG.M/S", "M-1", "SIE", "MSIE", "C", "MC", "AH", "MAH", "ABCDEFGHIJKL",
    // the full suffix grammar of 488.2 7.7.3.2: a unit exponent followed by further units, a leading '/', negative exponents inside
    "V2/HZ", "M2.S", "S-1.M", "KG.M2/S3", "/S", "/M2", "W/M2.K", "M-2.S2", "A2.S4/KG.M2", "/M2.S-1",
];

pub fn ws0(rng: &mut Rng, out: &mut Vec<u8>) {
    // optional white space
    if rng.chance(1, 3) {
        ws1(rng, out)
    }
}
pub fn ws1(rng: &mut Rng, out: &mut Vec<u8>) {
    let n = if rng.chance(4, 5) { 1 } else { 1 + rng.usize(3) };
    for _ in 0..n {
        out.push(if rng.chance(4, 5) { b' ' } else { *rng.pick(WS) });
    }
}

fn digits(rng: &mut Rng, n: usize, out: &mut Vec<u8>) {
    for _ in 0..n {
        out.push(b'0' + rng.usize(10) as u8);
    }
}

/// A decimal numeric literal in one of the NRf spellings.
pub fn gen_nrf(rng: &mut Rng) -> Vec<u8> {
    if rng.chance(1, 16) {
        // numbers at the limits of the integer types (and their halves / neighbours) in every spelling, zeros, and now
        // and then an extreme exponent: wherever a message carries a number, conversions meet their boundaries
        use crate::gen::num::{around, respell, with_exponent, ZEROS};
        const BOUNDS: &[i128] = &[-128, 127, 255, 256, -32768, 32767, 65535, 65536, -2147483648, 2147483647, 4294967295, 4294967296, -9223372036854775808, 9223372036854775807, 18446744073709551615, 18446744073709551616, 0, 1];
        return match rng.usize(8) {
            0 => rng.pick(ZEROS).as_bytes().to_vec(),
            1 => with_exponent(rng).into_bytes(),
            _ => {
                let b = *rng.pick(BOUNDS);
                let p = around(rng, b);
                respell(rng, &p).into_bytes()
            }
        };
    }
    let mut v = Vec::new();
    match rng.usize(4) {
        0 => v.push(b'+'),
        1 => v.push(b'-'),
        _ => {}
    }
    let il = rng.usize(6);
    match rng.usize(5) {
        0 | 1 => digits(rng, il.max(1), &mut v), // NR1
        2 => {
            digits(rng, il.max(1), &mut v);
            v.push(b'.');
            let n = rng.usize(5);
            digits(rng, n, &mut v);
        }
        3 => {
            v.push(b'.');
            let n = 1 + rng.usize(5);
            digits(rng, n, &mut v);
        }
        _ => {
            digits(rng, il.max(1), &mut v);
            v.push(b'.');
            let n = 1 + rng.usize(8);
            digits(rng, n, &mut v);
        }
    }
    if rng.chance(1, 3) {
        v.push(if rng.bool() { b'E' } else { b'e' });
        match rng.usize(3) {
            0 => v.push(b'+'),
            1 => v.push(b'-'),
            _ => {}
        }
        let n = 1 + rng.usize(2);
        digits(rng, n, &mut v);
    }
    v
}

pub fn gen_chardata(rng: &mut Rng) -> Vec<u8> {
    let n = match rng.usize(10) {
        0 => 12,
        1 => 1,
        _ => 1 + rng.usize(12),
    };
    let mut v = vec![if rng.bool() { b'A' + rng.usize(26) as u8 } else { b'a' + rng.usize(26) as u8 }];
    const AL: &[u8] = b"ABCDEFGHIJKLMNOPQRSTUVWXYZabcdefghijklmnopqrstuvwxyz0123456789_";
    for _ in 1..n {
        v.push(*rng.pick(AL));
    }
    v
}

/// bytes that stress separator handling inside strings / blocks / expressions
const NASTY: &[u8] = b";,:?*#'\"() \t\r\n@!";

pub fn gen_string_body(rng: &mut Rng, quote: u8, maxlen: usize) -> Vec<u8> {
    // body as it appears between the quotes (embedded quote doubled)
    let n = match rng.usize(8) {
        0 => 0,
        _ => rng.usize(maxlen + 1),
    };
    let mut v = Vec::new();
    for _ in 0..n {
        let c = match rng.usize(4) {
            0 => *rng.pick(NASTY),
            1 => rng.usize(128) as u8,
            _ => b' ' + rng.usize(95) as u8,
        };
        if c == quote {
            v.push(c);
            v.push(c);
        } else {
            v.push(c);
        }
    }
    if rng.chance(1, 10) {
        // doubled quote at the very end / start
        if rng.bool() {
            v.push(quote);
            v.push(quote);
        } else {
            v.insert(0, quote);
            v.insert(0, quote);
        }
    }
    v
}

pub fn gen_block(rng: &mut Rng, maxlen: usize) -> Vec<u8> {
    let n = match rng.usize(10) {
        0 => 0,
        1 => 9.min(maxlen),
        2 => 10.min(maxlen),
        3 => maxlen,
        _ => rng.usize(maxlen + 1),
    };
    let payload: Vec<u8> = (0..n)
        .map(|_| match rng.usize(3) {
            0 => *rng.pick(NASTY),
            1 => rng.next() as u8,
            _ => b' ' + rng.usize(95) as u8,
        })
        .collect();
    let ls = n.to_string();
    // header width: minimal, or padded with leading zeros up to 9
    let width = if rng.chance(1, 4) { (ls.len() + rng.usize(4)).min(9) } else { ls.len() };
    let mut v = vec![b'#', b'0' + width as u8];
    for _ in 0..width - ls.len() {
        v.push(b'0');
    }
    v.extend_from_slice(ls.as_bytes());
    v.extend_from_slice(&payload);
    v
}

pub fn gen_expr_body(rng: &mut Rng) -> Vec<u8> {
    let n = 1 + rng.usize(16);
    const AL: &[u8] = b"0123456789,:!@+-. \tABCabc*/^<>=&|_$%";
    (0..n).map(|_| *rng.pick(AL)).collect()
}

pub fn gen_nondec(rng: &mut Rng) -> (Vec<u8>, u64) {
    let (r, radix, digs): (u8, u64, &[u8]) = match rng.usize(3) {
        0 => (b'H', 16, b"0123456789ABCDEFabcdef"),
        1 => (b'Q', 8, b"01234567"),
        _ => (b'B', 2, b"01"),
    };
    let maxd = match radix {
        16 => 16,
        8 => 22,
        _ => 64,
    };
    let n = match rng.usize(6) {
        0 => maxd,
        1 => 1,
        _ => 1 + rng.usize(maxd),
    };
    let mut v = vec![b'#', if rng.bool() { r } else { r.to_ascii_lowercase() }];
    let mut val: u128 = 0;
    for i in 0..n {
        let mut d = *rng.pick(digs);
        let mut x = (d as char).to_digit(radix as u32).unwrap() as u128;
        if radix == 8 && n == 22 && i == 0 {
            // keep within 64 bits
            d = if rng.bool() { b'1' } else { b'0' };
            x = (d - b'0') as u128;
        }
        val = val * radix as u128 + x;
        v.push(d);
    }
    (v, val as u64)
}

/// `#H/#Q/#B` literal around and beyond the 64-bit boundary, with leading zeros: (text, exact value when it
/// fits 64 bits, `None` when the literal denotes a larger number)
pub fn gen_nondec_wide(rng: &mut Rng) -> (Vec<u8>, Option<u64>) {
    let (r, radix, digs): (u8, u128, &[u8]) = match rng.usize(3) {
        0 => (b'H', 16, b"0123456789ABCDEFabcdef"),
        1 => (b'Q', 8, b"01234567"),
        _ => (b'B', 2, b"01"),
    };
    // number of digits a full 64-bit value needs
    let full: usize = match radix {
        16 => 16,
        8 => 22,
        _ => 64,
    };
    let n = match rng.usize(8) {
        0 | 1 => full,
        2 => full + 1,
        3 => full - 1,
        4 => full + 2 + rng.usize(full),
        _ => 1 + rng.usize(full + 2),
    };
    let zeros = match rng.usize(6) {
        0 => 1 + rng.usize(3),
        1 => 20 + rng.usize(60),
        _ => 0,
    };
    let fill = rng.usize(4); // 0/1 random, 2 all zero after the leading digit, 3 all maximal
    let mut v = vec![b'#', if rng.bool() { r } else { r.to_ascii_lowercase() }];
    v.extend(std::iter::repeat(b'0').take(zeros));
    let mut val: u128 = 0;
    let mut over = false;
    for i in 0..n {
        let d = if i == 0 {
            // leading significant digit: every non-zero digit of the radix
            let k = 1 + rng.usize(radix as usize - 1);
            std::char::from_digit(k as u32, radix as u32).unwrap().to_ascii_uppercase() as u8
        } else {
            match fill {
                2 => b'0',
                3 => std::char::from_digit(radix as u32 - 1, radix as u32).unwrap().to_ascii_uppercase() as u8,
                _ => *rng.pick(digs),
            }
        };
        let x = (d as char).to_digit(radix as u32).unwrap() as u128;
        val = val * radix + x;
        if val > u64::MAX as u128 {
            over = true;
            val = u64::MAX as u128 + 1;
        }
        v.push(d);
    }
    (v, if over { None } else { Some(val as u64) })
}

#[derive(Clone, Debug)]
pub struct GDatum {
    pub kind: DKind,
    /// element text as sent (including quotes, `#` headers, parentheses, suffix)
    pub text: Vec<u8>,
}

/// Generate one data element of the requested kind (indefinite blocks are not produced here).
pub fn gen_datum(rng: &mut Rng, kind: DKind) -> GDatum {
    let text = match kind {
        DKind::Char => gen_chardata(rng),
        DKind::Dec => gen_nrf(rng),
        DKind::DecSuffix => {
            let mut v = gen_nrf(rng);
            // avoid "…E" ambiguity handled as unspecified: suffix separated by optional ws is fine
            if rng.bool() {
                ws1(rng, &mut v);
            }
            let s = rng.pick(SUFFIX_POOL).as_bytes();
            // a suffix starting with E directly after digits would read as an exponent mark: keep a space there
            if matches!(s[0], b'E' | b'e') && v.last().map_or(false, |c| !crate::refm::lexer::is_ws(*c)) {
                v.push(b' ');
            }
            for c in s {
                v.push(if rng.chance(1, 4) { c.to_ascii_lowercase() } else { *c });
            }
            v
        }
        DKind::NonDec => gen_nondec(rng).0,
        DKind::Str => {
            let q = if rng.bool() { b'"' } else { b'\'' };
            let mut v = vec![q];
            v.extend_from_slice(&gen_string_body(rng, q, 20));
            v.push(q);
            v
        }
        DKind::Block => gen_block(rng, 40),
        DKind::Expr => {
            let mut v = vec![b'('];
            v.extend_from_slice(&gen_expr_body(rng));
            v.push(b')');
            v
        }
    };
    GDatum { kind, text }
}

pub fn any_kind(rng: &mut Rng) -> DKind {
    *rng.pick(&crate::refm::lexer::ALL_KINDS)
}

/// Render a data list `d1, d2 ,d3` with random legal white space.
pub fn render_data(rng: &mut Rng, data: &[GDatum], out: &mut Vec<u8>) {
    for (i, d) in data.iter().enumerate() {
        if i > 0 {
            ws0(rng, out);
            out.push(b',');
            ws0(rng, out);
        }
        out.extend_from_slice(&d.text);
    }
}

/// Message ending styles
#[derive(Clone, Copy, Debug, PartialEq, Eq)]
pub enum Ending {
    Eoi,
    Nl,
    CrLf,
    Ws,
    WsNl,
    Semi,
    SemiNl,
    SemiWs,
}
pub const ENDINGS: [Ending; 8] = [Ending::Eoi, Ending::Nl, Ending::CrLf, Ending::Ws, Ending::WsNl, Ending::Semi, Ending::SemiNl, Ending::SemiWs];

pub fn render_ending(rng: &mut Rng, e: Ending, out: &mut Vec<u8>) {
    match e {
        Ending::Eoi => {}
        Ending::Nl => out.push(b'\n'),
        Ending::CrLf => out.extend_from_slice(b"\r\n"),
        Ending::Ws => ws1(rng, out),
        Ending::WsNl => {
            ws1(rng, out);
            out.push(b'\n')
        }
        Ending::Semi => out.push(b';'),
        Ending::SemiNl => out.extend_from_slice(b";\n"),
        Ending::SemiWs => {
            out.push(b';');
            ws1(rng, out)
        }
    }
}
