//! Numeric literal generators: every NRf spelling, values adjacent to type bounds and half-integers.
use crate::fw::Rng;

/// Re-spell a plain decimal string (optional sign, digits, optional .digits) in a random equivalent NRf form.
pub fn respell(rng: &mut Rng, plain: &str) -> String {
    let (sign, body) = if let Some(b) = plain.strip_prefix('-') { ("-", b) } else if let Some(b) = plain.strip_prefix('+') { ("+", b) } else { ("", plain) };
    let (ip, fp) = match body.split_once('.') {
        Some((a, b)) => (a.to_string(), b.to_string()),
        None => (body.to_string(), String::new()),
    };
    let mut sign = sign.to_string();
    if sign.is_empty() && rng.chance(1, 6) {
        sign = "+".into();
    }
    let mut ip = ip;
    let mut fp = fp;
    // leading zeros (now and then more than any fixed digit buffer holds)
    if rng.chance(1, 6) {
        ip = format!("{}{}", "0".repeat(1 + rng.usize(3)), ip);
    } else if rng.chance(1, 60) {
        ip = format!("{}{}", "0".repeat(*rng.pick(&[17usize, 20, 32, 64, 128, 255, 256, 400, 800])), ip);
    }
    // trailing fractional zeros
    if rng.chance(1, 6) {
        fp = format!("{}{}", fp, "0".repeat(1 + rng.usize(3)));
    } else if rng.chance(1, 60) {
        fp = format!("{}{}", fp, "0".repeat(*rng.pick(&[17usize, 20, 32, 64, 128, 255, 256, 400, 800])));
    }
    // a long tail of non-zero fraction digits (does not change which integers are nearest unless it sits on .5,
    // which `around` covers; it does change the float and exercises every digit limit)
    if rng.chance(1, 80) && !fp.is_empty() && fp != "5" {
        let n = *rng.pick(&[20usize, 40, 64, 100, 300, 770, 1100]);
        fp = format!("{}{}", fp, (0..n).map(|_| (b'0' + rng.usize(10) as u8) as char).collect::<String>());
    }
    match rng.usize(6) {
        0 | 1 => {
            // plain
            if fp.is_empty() {
                match rng.usize(4) {
                    0 => format!("{}{}.", sign, ip),
                    1 => format!("{}{}.0", sign, ip),
                    _ => format!("{}{}", sign, ip),
                }
            } else {
                format!("{}{}.{}", sign, ip, fp)
            }
        }
        2 => {
            // shift the point left by k and add E+k
            let k = 1 + rng.usize(5);
            let digits = format!("{}{}", ip, fp);
            let pos = ip.len() as i64 - k as i64;
            let (a, b) = if pos > 0 {
                (digits[..pos as usize].to_string(), digits[pos as usize..].to_string())
            } else {
                ("0".to_string(), format!("{}{}", "0".repeat((-pos) as usize), digits))
            };
            let e = if rng.bool() { "E" } else { "e" };
            let es = if rng.bool() { "+" } else { "" };
            format!("{}{}.{}{}{}{}", sign, a, b, e, es, k)
        }
        3 => {
            // shift right: digits as integer with negative exponent
            let k = fp.len();
            let e = if rng.bool() { "E" } else { "e" };
            if k == 0 {
                format!("{}{}{}{}", sign, ip, e, if rng.bool() { "0" } else { "-0" })
            } else {
                format!("{}{}{}{}-{}", sign, ip, fp, e, k)
            }
        }
        4 => {
            // bare leading point when the integer part is zero
            if ip.trim_start_matches('0').is_empty() && !fp.is_empty() {
                format!("{}.{}", sign, fp)
            } else if fp.is_empty() {
                format!("{}{}", sign, ip)
            } else {
                format!("{}{}.{}", sign, ip, fp)
            }
        }
        _ => {
            // scale by 10^k with more zeros: x = (x*10^k) e-k
            let k = 1 + rng.usize(3);
            let e = if rng.bool() { "E" } else { "e" };
            if fp.is_empty() {
                format!("{}{}{}{}-{}", sign, ip, "0".repeat(k), e, k)
            } else {
                format!("{}{}.{}{}{}", sign, ip, fp, e, if rng.bool() { "+00" } else { "0" })
            }
        }
    }
}

/// Boundary-directed plain decimal strings around an integer `v`: v + {-1,-0.5,-0.5±eps,0,+0.5±eps,+0.5,+1} etc.
pub fn around(rng: &mut Rng, v: i128) -> String {
    let eps_digits = 1 + rng.usize(22);
    let frac = match rng.usize(12) {
        0 => String::new(),
        1 => ".0".to_string(),
        2 => ".5".to_string(),
        3 => format!(".4{}", "9".repeat(eps_digits)),
        4 => format!(".5{}1", "0".repeat(eps_digits)),
        5 => ".4".to_string(),
        6 => ".6".to_string(),
        7 => format!(".{}1", "0".repeat(eps_digits)),
        8 => format!(".{}", "9".repeat(eps_digits)),
        9 => ".49".to_string(),
        10 => ".51".to_string(),
        _ => format!(".{}", (0..1 + rng.usize(6)).map(|_| (b'0' + rng.usize(10) as u8) as char).collect::<String>()),
    };
    let base = v + rng.range(-2, 2) as i128;
    // sign handling: "-0.5" needs an explicit sign even though base is 0
    if base < 0 || (base == 0 && rng.chance(1, 3)) {
        format!("-{}{}", -base, frac)
    } else {
        format!("{}{}", base, frac)
    }
}

pub fn random_plain(rng: &mut Rng) -> String {
    let mx = if rng.chance(1, 8) { 25 } else { 6 };
    let nd = if rng.chance(1, 100) { *rng.pick(&[39usize, 40, 64, 100, 308, 309, 310, 400, 800]) } else { 1 + rng.usize(mx) };
    let mut s = String::new();
    if rng.chance(1, 3) {
        s.push('-');
    }
    for i in 0..nd {
        let d = rng.usize(10) as u8;
        s.push((b'0' + if i == 0 && nd > 1 && d == 0 { 1 } else { d }) as char);
    }
    if rng.bool() {
        s.push('.');
        for _ in 0..1 + rng.usize(8) {
            s.push((b'0' + rng.usize(10) as u8) as char);
        }
    }
    s
}

/// literal with an explicit (possibly extreme) exponent
pub fn with_exponent(rng: &mut Rng) -> String {
    let m = random_plain(rng);
    if rng.chance(1, 12) {
        // exponents that overflow 16/32/64-bit accumulators, or only look long (leading zeros)
        let m = if rng.chance(1, 3) { rng.pick(&["0", "-0", "+0", "0.0", "-0.0", ".0", "-.0", "0.", "0.000", "00"]).to_string() } else { m };
        let digits: String = match rng.usize(6) {
            0 => (0..10 + rng.usize(16)).map(|_| (b'0' + rng.usize(10) as u8) as char).collect(),
            1 => rng.pick(&["2147483647", "2147483648", "2147483649", "4294967295", "4294967296", "4294967297", "9223372036854775807", "9223372036854775808", "18446744073709551616", "32767", "32768", "65535", "65536", "65541"]).to_string(),
            2 => format!("{}{}", "0".repeat(10 + rng.usize(30)), rng.usize(40)),
            3 => format!("{}", 4294967296u64 + rng.usize(400) as u64),
            4 => format!("{}", 18446744073709551616u128 + rng.usize(400) as u128),
            _ => format!("{}", 400 + rng.usize(100_000)),
        };
        let sign = *rng.pick(&["", "+", "-", "-"]);
        return format!("{}{}{}{}", m, if rng.bool() { "E" } else { "e" }, sign, digits);
    }
    let e = match rng.usize(6) {
        0 => rng.range(-400, 400),
        1 => rng.range(-50, 50),
        2 => rng.range(300, 330),
        3 => rng.range(-340, -300),
        4 => rng.range(30, 50),
        _ => rng.range(-5, 20),
    };
    format!("{}{}{}", m, if rng.bool() { "E" } else { "e" }, e)
}

pub const ZEROS: &[&str] = &["0", "-0", "+0", "0.0", "-0.0", ".0", "-.0", "0.", "0e0", "0E5", "-0e-5", "0.000", "00", "0.0e10", "+.0E-3", "000.000e000"];
