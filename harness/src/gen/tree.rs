//! Random command trees. `unambiguous = true` yields trees on which SCPI designates exactly one
//! node per header: siblings pairwise non-matching, at most one default child per branch, and no
//! name visible through a chain of default branches matching a name of an enclosing level.
use crate::fw::Rng;
use crate::mon::tree::{Spec, SpecKind};
use crate::refm::mnemonic::{ref_match, short_len, split_suffix};

const SHORTS: &[&str] = &[
    "A", "B", "AB", "ABC", "TRIG", "CHAN", "FREQ", "VOLT", "CURR", "SENS", "SOUR", "OUTP", "MEAS", "CONF", "STAT", "SYST", "DISP", "CAL", "MEM", "L", "X", "INIT", "ABOR",
    "RANG", "AUTO", "STAR", "STOP", "CENT", "SPAN", "DC", "AC", "IMM", "LEV", "MODE", "ZZZZZZ",
];
const TAILS: &[&str] = &["", "", "", "ger", "nel", "uency", "age", "ent", "e", "ce", "put", "ure", "igure", "us", "em", "lay", "ibrate", "ory", "iate", "t", "e", "omatic", "er", "el", "x"];
const SUFS: &[&str] = &["", "", "", "", "", "", "1", "2", "3", "10", "125", "21", "11", "101", "12"];

pub fn gen_name(rng: &mut Rng) -> Vec<u8> {
    loop {
        let mut v = if rng.chance(1, 5) {
            // random short form (keeps wide branches of several hundred children feasible)
            (0..1 + rng.usize(4)).map(|_| b'A' + rng.usize(26) as u8).collect()
        } else {
            rng.pick(SHORTS).as_bytes().to_vec()
        };
        v.extend_from_slice(rng.pick(TAILS).as_bytes());
        v.extend_from_slice(rng.pick(SUFS).as_bytes());
        if v.len() <= 12 {
            return v;
        }
    }
}

/// forms under which a definition can be received: short / long, with its suffix (or none when 1)
pub fn forms(def: &[u8]) -> Vec<Vec<u8>> {
    let (h, s) = split_suffix(def);
    let sl = short_len(h);
    let mut out = vec![];
    for f in [&h[..sl], h] {
        let mut v = f.to_vec();
        v.extend_from_slice(s);
        out.push(v.clone());
        if s == b"1" {
            out.push(f.to_vec());
        }
        if s.is_empty() {
            let mut w = f.to_vec();
            w.push(b'1');
            out.push(w);
        }
    }
    out
}

/// can some received mnemonic match both definitions?
pub fn ambiguous_pair(a: &[u8], b: &[u8]) -> bool {
    if a.is_empty() || b.is_empty() {
        return false;
    }
    forms(a).iter().any(|f| ref_match(b, f) != Some(false)) || forms(b).iter().any(|f| ref_match(a, f) != Some(false))
}

pub struct TreeGen {
    /// root level with several hundred children (past every 8-bit child index)
    pub wide_root: bool,
    pub unambiguous: bool,
    pub max_depth: usize,
    pub max_fanout: usize,
    pub next_handler: usize,
}

impl TreeGen {
    /// names visible from inside this list of siblings: their own names + names visible through a default branch
    fn visible(specs: &[Spec]) -> Vec<Vec<u8>> {
        let mut v: Vec<Vec<u8>> = specs.iter().map(|s| s.name.clone()).collect();
        for s in specs {
            if s.default {
                if let SpecKind::Branch(sub) = &s.kind {
                    v.extend(Self::visible(sub));
                }
            }
        }
        v
    }

    fn gen_children(&mut self, rng: &mut Rng, depth: usize, forbidden: &[Vec<u8>]) -> Vec<Spec> {
        self.gen_children_opt(rng, depth, forbidden, true)
    }

    fn gen_children_opt(&mut self, rng: &mut Rng, depth: usize, forbidden: &[Vec<u8>], allow_default: bool) -> Vec<Spec> {
        let n = if depth == 0 && self.wide_root { 258 + rng.usize(50) } else { 1 + rng.usize(self.max_fanout) };
        let max_tries = if depth == 0 && self.wide_root { 20_000 } else { 60 };
        let mut out: Vec<Spec> = Vec::new();
        // default child first (documented requirement of the library)
        let want_default = allow_default && if depth > 0 { rng.chance(1, 2) } else { rng.chance(1, 3) };
        // `Branch!(name => handler; children...)` shape of the library's own macro and test tree: the branch's own
        // handler is an anonymous default leaf, and a default *branch* may follow it (CONFigure => h; [SCALar]...).
        // SCPI designates exactly one node as long as nothing below that default branch is reachable without
        // being named, so its first level gets no default child.
        let own_handler_then_default_branch = want_default && depth > 0 && depth < self.max_depth && rng.chance(1, 3);
        let mut tries = 0;
        while out.len() < n.max(if own_handler_then_default_branch { 2 } else { 1 }) && tries < max_tries {
            tries += 1;
            if own_handler_then_default_branch && out.len() < 2 {
                if out.is_empty() {
                    // the branch's own handler: anonymous (macro form) or a named optional leaf ([:IMMediate])
                    let name = if rng.chance(2, 3) { vec![] } else { gen_name(rng) };
                    if self.unambiguous && forbidden.iter().any(|o| ambiguous_pair(o, &name)) {
                        continue;
                    }
                    let h = self.next_handler;
                    self.next_handler += 1;
                    out.push(Spec { name, default: true, kind: SpecKind::Leaf(h) });
                } else {
                    let name = gen_name(rng);
                    if self.unambiguous && forbidden.iter().chain(std::iter::once(&out[0].name)).any(|o| ambiguous_pair(o, &name)) {
                        continue;
                    }
                    let mut forb: Vec<Vec<u8>> = forbidden.to_vec();
                    forb.push(name.clone());
                    forb.push(out[0].name.clone());
                    let sub = self.gen_children_opt(rng, depth + 1, &forb, false);
                    out.push(Spec { name, default: true, kind: SpecKind::Branch(sub) });
                    // the library looks for a default leaf first and a default branch second wherever they stand
                    // among the children, so either declaration order designates the same nodes
                    if rng.bool() {
                        out.swap(0, 1);
                    }
                }
                continue;
            }
            let is_default = want_default && out.is_empty();
            let make_branch = (depth < self.max_depth && rng.chance(if depth == 0 { 3 } else { 2 }, 5)) || (depth == 0 && is_default);
            let name = if is_default && !make_branch && rng.chance(1, 4) {
                vec![]
            } else if !out.is_empty() && rng.chance(1, 4) {
                // numeric-suffixed sibling: same long form as an existing sibling, another suffix (CHANnel1 / CHANnel2 / CHANnel)
                let base = &out[rng.usize(out.len())].name;
                let (h, _) = split_suffix(base);
                let mut v = h.to_vec();
                v.extend_from_slice(rng.pick(&["", "1", "2", "3", "10", "12", "21", "11", "101", "121", "31"]).as_bytes());
                if h.is_empty() || v.len() > 12 { gen_name(rng) } else { v }
            } else {
                gen_name(rng)
            };
            if self.unambiguous {
                let vis = Self::visible(&out);
                if vis.iter().chain(forbidden.iter()).any(|o| ambiguous_pair(o, &name)) {
                    continue;
                }
            }
            if make_branch {
                // names inside a default branch are visible at this level too
                let mut forb: Vec<Vec<u8>> = vec![];
                if is_default && self.unambiguous {
                    forb = Self::visible(&out);
                    forb.extend(forbidden.iter().cloned());
                    // siblings generated later are checked against visible(out) which includes this branch's names
                }
                // now and then a branch that has no children yet (a subsystem stub): nothing resolves on or below it
                let sub = if self.unambiguous && !is_default && rng.chance(1, 25) { vec![] } else { self.gen_children(rng, depth + 1, &forb) };
                out.push(Spec { name, default: is_default, kind: SpecKind::Branch(sub) });
            } else {
                let h = self.next_handler;
                self.next_handler += 1;
                out.push(Spec { name, default: is_default, kind: SpecKind::Leaf(h) });
            }
        }
        if out.is_empty() {
            let h = self.next_handler;
            self.next_handler += 1;
            out.push(Spec::leaf(b"ZQ", false, h));
        }
        out
    }

    /// Generate the children of the root (incl. a few common commands). Returns specs and handler count.
    pub fn generate(rng: &mut Rng, unambiguous: bool) -> (Vec<Spec>, usize) {
        let mut g = TreeGen { wide_root: rng.chance(1, 150), unambiguous, max_depth: 1 + rng.usize(5), max_fanout: 1 + rng.usize(6), next_handler: 0 };
        if g.wide_root {
            g.max_depth = 1 + rng.usize(2);
            g.max_fanout = 1 + rng.usize(3);
        }
        let mut root = g.gen_children(rng, 0, &[]);
        if g.next_handler == 0 {
            // only stubs so far: a tree needs at least one command
            let h = g.next_handler;
            g.next_handler += 1;
            root.push(Spec::leaf(b"ZQ", false, h));
        }
        let ncommon = rng.usize(4);
        for i in 0..ncommon {
            let names: [&[u8]; 4] = [b"*IDN", b"*RST", b"*OPC", b"*TST"];
            let h = g.next_handler;
            g.next_handler += 1;
            root.push(Spec::leaf(names[i], false, h));
        }
        (root, g.next_handler)
    }
}
