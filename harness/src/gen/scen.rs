//! Scenario building blocks shared by C02/C05/C06/C10/C11: units that address leaves of a random
//! tree through absolute / relative / common headers in arbitrary legal spellings.
use crate::fw::Rng;
use crate::gen::msg::*;
use crate::gen::names::random_case;
use crate::mon::dev::Val;
use crate::refm::mnemonic::{short_len, split_suffix};
use crate::refm::resolver::*;
use std::sync::OnceLock;

/// spell one node name: short or long form, suffix 1 added/dropped, random case
pub fn spell(rng: &mut Rng, def: &[u8]) -> Vec<u8> {
    let (h, s) = split_suffix(def);
    let sl = short_len(h);
    let mut v = if rng.bool() { h[..sl].to_vec() } else { h.to_vec() };
    if s.is_empty() {
        if rng.chance(1, 5) && v.len() < 12 {
            v.push(b'1');
        }
    } else if s == b"1" {
        if rng.bool() {
            v.push(b'1');
        }
    } else {
        v.extend_from_slice(s);
    }
    random_case(rng, &v)
}

pub struct GenUnit {
    pub colon: bool,
    pub mnems: Vec<Vec<u8>>,
    pub query: bool,
    pub kind: &'static str,
}

impl GenUnit {
    pub fn header(&self) -> Vec<u8> {
        let mut msg = Vec::new();
        if self.colon {
            msg.push(b':');
        }
        for (i, m) in self.mnems.iter().enumerate() {
            if i > 0 {
                msg.push(b':');
            }
            msg.extend_from_slice(m);
        }
        if self.query {
            msg.push(b'?');
        }
        msg
    }
}

/// A unit aimed at some leaf; `hostile` enables the variants that should NOT resolve.
pub fn gen_unit(rng: &mut Rng, t: &RTree, level: usize, first: bool, hostile: bool) -> GenUnit {
    let query = rng.chance(2, 5);
    let roll = if hostile { rng.usize(21) } else { rng.usize(15) };
    if roll == 20 {
        // onto or below a branch without children (absolute header): designates nothing
        let empties: Vec<usize> = (1..t.nodes.len()).filter(|n| t.nodes[*n].handler.is_none() && t.nodes[*n].children.is_empty() && !t.nodes[*n].name.is_empty()).collect();
        if let Some(&e) = empties.first() {
            let e = if empties.len() > 1 { *rng.pick(&empties) } else { e };
            let mut mnems: Vec<Vec<u8>> = vec![];
            for &n in &t.path(e) {
                let nd = &t.nodes[n];
                if nd.name.is_empty() || (nd.default && rng.bool()) {
                    continue;
                }
                mnems.push(spell(rng, &nd.name));
            }
            if rng.chance(3, 4) {
                mnems.push(rng.pick(&[&b"FOO"[..], b"CLOSe", b"A", b"STATe1"]).to_vec());
            }
            return GenUnit { colon: true, mnems, query, kind: "empty-branch" };
        }
    }
    let leaf = *rng.pick(&t.leaves);
    let path = t.path(leaf);
    let is_common = t.nodes[leaf].name.first() == Some(&b'*');
    if is_common {
        return GenUnit { colon: false, mnems: vec![random_case(rng, &t.nodes[leaf].name)], query, kind: "common" };
    }
    let below: Vec<usize> = t.leaves.iter().copied().filter(|l| level != 0 && t.path(*l).contains(&level)).collect();
    let (colon, rem): (bool, Vec<usize>) = if !first && !below.is_empty() && roll < 9 {
        let l = *rng.pick(&below);
        let p = t.path(l);
        let i = p.iter().position(|x| *x == level).unwrap();
        (false, p[i + 1..].to_vec())
    } else {
        (if first { rng.chance(1, 3) } else { level != 0 || rng.bool() }, path.clone())
    };
    let mut mnems: Vec<Vec<u8>> = vec![];
    for &n in &rem {
        let nd = &t.nodes[n];
        if nd.name.is_empty() {
            continue;
        }
        if nd.default && rng.bool() {
            continue;
        }
        mnems.push(spell(rng, &nd.name));
    }
    let mut kind = if colon { "absolute" } else if first { "first-unit" } else { "relative" };
    if mnems.is_empty() {
        if let Some(&n) = rem.iter().rev().find(|n| !t.nodes[**n].name.is_empty()) {
            mnems.push(spell(rng, &t.nodes[n].name));
        } else {
            mnems.push(b"NOPE".to_vec());
        }
    }
    match roll {
        15 => {
            mnems.push(b"EXTRa".to_vec());
            kind = "past-leaf";
        }
        16 => {
            if mnems.len() > 1 {
                mnems.pop();
            }
            kind = "stops-early";
        }
        17 => {
            let i = rng.usize(mnems.len());
            if rng.bool() || mnems[i].len() < 2 {
                mnems[i].push(b'x');
            } else {
                mnems[i].pop();
            }
            mnems[i].truncate(12);
            kind = "near-miss";
        }
        18 => {
            if !first && level != 0 {
                return GenUnit { colon: false, mnems, query, kind: "needs-going-up" };
            }
        }
        19 => {
            // a different numeric suffix: another digit appended (2 -> 21, none -> 7, 1 -> 10) or the last of
            // several digits dropped (21 -> 2, 125 -> 12)
            let i = rng.usize(mnems.len());
            let nd = mnems[i].iter().rev().take_while(|c| c.is_ascii_digit()).count();
            if nd >= 2 && rng.chance(1, 3) {
                mnems[i].pop();
            } else {
                mnems[i].push(*rng.pick(b"7101230"));
            }
            mnems[i].truncate(12);
            kind = "other-suffix";
        }
        _ => {}
    }
    GenUnit { colon, mnems, query, kind }
}

/// A unit that the reference resolver designates to exactly one leaf. Returns (unit, handler, new level).
pub fn gen_resolving_unit(rng: &mut Rng, t: &RTree, level: usize, first: bool) -> (GenUnit, usize, usize) {
    for _ in 0..200 {
        let g = gen_unit(rng, t, level, first, false);
        let refs: Vec<&[u8]> = g.mnems.iter().map(|m| &m[..]).collect();
        let is_common = g.mnems[0].first() == Some(&b'*');
        let from = if g.colon || first || is_common { 0 } else { level };
        if let Res::Leaf { handler, level: nl, .. } = t.resolve(from, &refs) {
            let nl = if is_common { level } else { nl };
            return (g, handler, nl);
        }
    }
    // e.g. an ambiguous / degenerate tree in which (almost) nothing resolves uniquely: fall back to any unit
    let g = gen_unit(rng, t, level, first, false);
    (g, usize::MAX, 0)
}

/// A header that resolves nowhere from `level`
pub fn gen_undefined_unit(rng: &mut Rng, t: &RTree, level: usize, first: bool) -> GenUnit {
    for _ in 0..500 {
        let mut g = gen_unit(rng, t, level, first, true);
        if rng.chance(1, 3) {
            g = GenUnit { colon: rng.bool(), mnems: vec![b"QQQX".to_vec()], query: rng.bool(), kind: "unknown" };
        }
        let refs: Vec<&[u8]> = g.mnems.iter().map(|m| &m[..]).collect();
        let is_common = g.mnems[0].first() == Some(&b'*');
        let from = if g.colon || first || is_common { 0 } else { level };
        if t.resolve(from, &refs) == Res::Undefined {
            return g;
        }
    }
    GenUnit { colon: true, mnems: vec![b"QQQX".to_vec()], query: false, kind: "unknown" }
}

// ---- response values -------------------------------------------------------------------------

pub struct Pools {
    pub ascii: Vec<&'static [u8]>,
    /// long ASCII texts (100 ... 70 000 bytes, lengths around 255/256 and 65 535/65 536)
    pub long_ascii: Vec<&'static [u8]>,
    pub chr: Vec<&'static [u8]>,
    pub bin: Vec<&'static [u8]>,
    pub utf8: Vec<&'static str>,
    pub expr: Vec<&'static [u8]>,
}

pub fn pools() -> &'static Pools {
    static P: OnceLock<Pools> = OnceLock::new();
    P.get_or_init(|| {
        let mut rng = Rng::new(0xC0FFEE);
        let leak = |v: Vec<u8>| -> &'static [u8] { Box::leak(v.into_boxed_slice()) };
        let mut ascii: Vec<&'static [u8]> = vec![b"", b"\"", b"\"\"", b"a\"b", b";", b",", b"a;b,c\n", b"'", b"potato", b" "];
        for _ in 0..120 {
            let n = rng.usize(24);
            ascii.push(leak((0..n).map(|_| if rng.chance(1, 5) { *rng.pick(b"\";,'\n #()") } else { rng.usize(128) as u8 }).collect()));
        }
        let mut long_ascii: Vec<&'static [u8]> = vec![];
        for n in [100usize, 127, 128, 200, 230, 250, 253, 254, 255, 256, 257, 300, 511, 512, 1000, 5000, 65_535, 65_536, 70_000] {
            long_ascii.push(leak((0..n).map(|_| if rng.chance(1, 12) { *rng.pick(b"\";,'\n #()") } else { b' ' + rng.usize(95) as u8 }).collect()));
        }
        let mut chr: Vec<&'static [u8]> = vec![b"A", b"ABC", b"MAX", b"ON", b"Z9_x", b"ABCDEFGHIJKL"];
        for _ in 0..30 {
            chr.push(leak(gen_chardata(&mut rng)));
        }
        let mut bin: Vec<&'static [u8]> = vec![b"", b"\n", b";", b"#0", b"123456789", b"1234567890"];
        for _ in 0..120 {
            let n = match rng.usize(6) {
                0 => 9,
                1 => 10,
                2 => 99,
                3 => 100,
                _ => rng.usize(40),
            };
            bin.push(leak((0..n).map(|_| rng.next() as u8).collect()));
        }
        let utf8: Vec<&'static str> = vec!["", "abc", "gr\u{fc}n", "\u{3c0}=3.14", "a;b,c", "\"q\"", "line\nbreak"];
        let mut expr: Vec<&'static [u8]> = vec![b"1,2", b"@1!2,3:5", b"1:2", b"a+b", b"x"];
        for _ in 0..20 {
            expr.push(leak(gen_expr_body(&mut rng)));
        }
        Pools { ascii, long_ascii, chr, bin, utf8, expr }
    })
}

pub fn gen_val(rng: &mut Rng) -> Val {
    let p = pools();
    match rng.usize(21) {
        0 => Val::U8(rng.next() as u8),
        1 => Val::I16(rng.next() as i16),
        2 => Val::U32(rng.next() as u32),
        3 => Val::I64(if rng.bool() { rng.next() as i64 } else { rng.range(-1000, 1000) }),
        4 => Val::Usize(rng.next() as usize >> rng.usize(64)),
        5 => Val::F32(if rng.chance(1, 8) { *rng.pick(&[f32::NAN, f32::INFINITY, f32::NEG_INFINITY, 0.0, f32::MAX, f32::MIN_POSITIVE]) } else { f32::from_bits(rng.next() as u32) }),
        6 => Val::F64(if rng.chance(1, 8) { *rng.pick(&[f64::NAN, f64::INFINITY, f64::NEG_INFINITY, 0.0, f64::MAX, 1e-310]) } else { f64::from_bits(rng.next()) }),
        7 => Val::Bool(rng.bool()),
        // now and then a long text (100-300 bytes) as string or as error item with/without extended text
        8 if rng.chance(1, 25) => Val::Str(p.long_ascii[rng.usize(12)]),
        9 if rng.chance(1, 25) => {
            let e = scpi::error::Error::custom(*rng.pick(&[-365i16, 77, 1, -1]), p.long_ascii[rng.usize(12)]);
            Val::Err(match rng.usize(4) {
                // device-dependent info with bytes beyond ASCII (whatever the library makes of it, it does so without panicking
                // and the same way into every formatter)
                3 => e.extended(*rng.pick(&[&b"85 \xb0C"[..], b"\xc3\xa9chec", b"\xff"])),
                0 => e,
                1 => e.extended(*rng.pick(&p.ascii)),
                _ => e.extended(p.long_ascii[rng.usize(12)]),
            })
        }
        8 | 9 => Val::Str(*rng.pick(&p.ascii)),
        10 => Val::Arb(*rng.pick(&p.bin)),
        11 => Val::Utf8(*rng.pick(&p.utf8)),
        12 => Val::Chr(*rng.pick(&p.chr)),
        13 => Val::Expr(*rng.pick(&p.expr)),
        14 => Val::Hex(rng.next() as u16),
        15 => Val::Bin(rng.next() as u8),
        16 => Val::Oct(rng.next() as u32),
        17 => Val::ListI32((0..1 + rng.usize(5)).map(|_| rng.next() as i32 >> rng.usize(32)).collect()),
        18 => Val::ArrList((0..1 + rng.usize(8)).map(|_| rng.next() as i32 >> rng.usize(32)).collect()),
        19 => Val::Enum(*rng.pick(&crate::props::enums_fixed::FMT_ALL)),
        _ => Val::Err(*rng.pick(&[
            scpi::error::Error::new(scpi::error::ErrorCode::NoError),
            scpi::error::Error::new(scpi::error::ErrorCode::DataOutOfRange),
            scpi::error::Error::custom(42, b"Custom thing"),
            scpi::error::Error::new(scpi::error::ErrorCode::SyntaxError).extended(b"near ;"),
        ])),
    }
}

pub const RESP_HEADERS: &[&[u8]] = &[b"VOLT", b"FREQ", b"A", b"CHAN2", b"SENSe", b"MEASUREMENT", b"CONFIGURE12", b"B"];
