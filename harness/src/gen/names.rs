//! Mnemonic definitions of SCPI shape and candidate spellings.
use crate::fw::Rng;

pub const SUFFIXES: &[&str] = &["", "", "", "1", "2", "9", "10", "125", "65535", "0"];

/// Random SCPI-shaped definition: SHORT (1..=6 upper) + tail (0..=8 lower) + optional suffix, <= 12.
pub fn gen_def(rng: &mut Rng) -> Vec<u8> {
    loop {
        let sl = 1 + rng.usize(6);
        let tl = if rng.chance(1, 3) { 0 } else { rng.usize(9) };
        let suf = rng.pick(SUFFIXES).as_bytes();
        if sl + tl + suf.len() > 12 {
            continue;
        }
        let mut v = Vec::new();
        // small alphabet for the letters makes accidental near-collisions likely
        let wide = rng.bool();
        for _ in 0..sl {
            v.push(if wide {
                b'A' + rng.usize(26) as u8
            } else {
                *rng.pick(b"ABTR")
            });
        }
        for _ in 0..tl {
            v.push(if wide {
                b'a' + rng.usize(26) as u8
            } else {
                *rng.pick(b"abtr")
            });
        }
        v.extend_from_slice(suf);
        return v;
    }
}

/// Apply a random letter-case pattern
pub fn random_case(rng: &mut Rng, s: &[u8]) -> Vec<u8> {
    let mode = rng.usize(4);
    s.iter()
        .map(|c| match mode {
            0 => c.to_ascii_lowercase(),
            1 => c.to_ascii_uppercase(),
            2 => *c,
            _ => {
                if rng.bool() {
                    c.to_ascii_lowercase()
                } else {
                    c.to_ascii_uppercase()
                }
            }
        })
        .collect()
}
