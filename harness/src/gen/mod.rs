//! Generators
pub mod names;
