//! Generators
pub mod names;
pub mod msg;
pub mod tree;
pub mod scen;
pub mod num;
