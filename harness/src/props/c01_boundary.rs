//! Hand-picked boundary inputs for C01: every length guard, slice/nth arithmetic site and
//! fixed-size formatting buffer the anchors name. Run in every flavour — this is the subset that
//! Miri and ASan are guaranteed to see.
use crate::mon::dev::*;
use crate::mon::tree::*;

const LITERALS: &[&[u8]] = &[
    b"", b"\n", b" ", b";", b":", b"*", b"?", b",", b"#", b"A #", b"A #0", b"A #0\n", b"A #0x", b"A #1", b"A #10", b"A #11", b"A #11x", b"A #15abc", b"A #15abcde", b"A #15abcdef",
    b"A #210", b"A #2100123456789", b"A #210012345678", b"A #9000000001x", b"A #9999999999", b"A #9999999999x", b"A #1-", b"A #2+1x", b"A #2 1x", b"A #1\xff", b"A #H", b"A #HG",
    b"A #HFFFFFFFFFFFFFFFF", b"A #HFFFFFFFFFFFFFFFFF", b"A #H10000000000000000", b"A #Q1777777777777777777777", b"A #Q2000000000000000000000", b"A #B", b"A #B2",
    b"A #B1111111111111111111111111111111111111111111111111111111111111111", b"A #B11111111111111111111111111111111111111111111111111111111111111111", b"A #h+1", b"A #H-1", b"A #X1",
    b"A '", b"A ''", b"A '''", b"A ''''", b"A 'a", b"A 'a'", b"A 'a''", b"A \"\"\"", b"A 'a'b", b"A '\xff'", b"A '\x00'", b"A (", b"A ()", b"A (1", b"A (1)", b"A (1))", b"A ((1))", b"A (\xff)",
    b"A (@", b"A (@)", b"A (@1", b"A (@1!)", b"A (@1!!2)", b"A (@!)", b"A (@1!2!3!4)", b"A (@1:)", b"A (@:1)", b"A (@1:2:3)", b"A (@-)", b"A (@+)", b"A (@1!-)", b"A (@99999999999999999999)",
    b"A (@1,)", b"A (@,1)", b"A (@1,,2)", b"A (1,)", b"A (,1)", b"A (1:)", b"A (:1)", b"A (1:2:3)", b"A (.)", b"A (-)", b"A (1e)", b"A (1e+)", b"A (.5)", b"A (1-2)", b"A (+)",
    b"ABCDEFGHIJKL", b"ABCDEFGHIJKLM", b"A ABCDEFGHIJKL", b"A ABCDEFGHIJKLM", b"A 1 ABCDEFGHIJKL", b"A 1 ABCDEFGHIJKLM", b"*ABCDEFGHIJK", b"*ABCDEFGHIJKL", b"A:ABCDEFGHIJKLM",
    b"A 1", b"A 1.", b"A .1", b"A .", b"A +", b"A -", b"A +.", b"A 1e", b"A 1e+", b"A 1e1", b"A 1E-1", b"A 1.e1", b"A .1e1", b"A 1e99999999999999999999", b"A 1e-99999999999999999999",
    b"A 0", b"A -0", b"A 0.0", b"A -0.0", b"A 0.5", b"A -0.5", b"A 0.49999999999999999999", b"A 255", b"A 255.4", b"A 255.5", b"A 256", b"A -129", b"A 65535.5", b"A 4294967295.5",
    b"A 18446744073709551615", b"A 18446744073709551615.4", b"A 18446744073709551615.5", b"A 18446744073709551616", b"A 9223372036854775807", b"A 9223372036854775807.0", b"A 9223372036854775807.5",
    b"A 9223372036854775808", b"A -9223372036854775808", b"A -9223372036854775808.5", b"A -9223372036854775809", b"A 1e19", b"A 1e20", b"A 1e38", b"A 1e39", b"A 1e308", b"A 1e309", b"A -1e309",
    b"A 1e-400", b"A 4.9e-324", b"A 2.4e-324", b"A 1.7976931348623157e308", b"A 1.7976931348623159e308", b"A 3.4028235e38", b"A 3.4028236e38", b"A 1.4e-45", b"A 0.7e-45",
    b"A 1 V", b"A 1V", b"A 1 MV", b"A 1 MAHZ", b"A 1 A.HR", b"A 1 V/S", b"A 1 M-1", b"A 1 /S", b"A 1 DBM", b"A 1 VPK", b"A 1 PK", b"A 1 RMS", b"A 1 PP", b"A 1 K", b"A 1 EV", b"A 1EV", b"A 1 FAR", b"A -459.67 FAR",
    b"A MAX", b"A MIN", b"A DEF", b"A UP", b"A DOWN", b"A INF", b"A NINF", b"A NAN", b"A ON", b"A OFF", b"A ONCE", b"A MAXIMUM", b"A MAXI",
    b"A?", b"A? ", b"A?;", b"A?\n", b"A?1", b"A??", b"A ?", b"A;", b"A;;", b";A", b"A;\n", b"A\n\n", b"A\nB", b"A;B", b"A;:B", b"A:B", b"A::B", b"A:", b":A", b"::A", b"*A:B", b"*A;*E", b" A", b"A ,1", b"A 1,", b"A 1,,2", b"A 1 2",
    b"\xff", b"A\xff", b"A \xff", b"\x00", b"A\x00", b"A \x00", b"A\t1", b"A\r\n", b"A\x0c1", b"A\x0b1", b"A \x0c\x0c1", b"A 1\x0c;B",
];

pub fn boundary_inputs() -> Vec<Vec<u8>> {
    let mut v: Vec<Vec<u8>> = LITERALS.iter().map(|l| l.to_vec()).collect();
    // every prefix of a message that exercises all element kinds
    let full: &[u8] = b"A:E 'a''b',#13xyz,(@1!2:3!4,5),#HfF,1.5e3 KHZ,MAX;*A? #210";
    for k in 0..=full.len() {
        v.push(full[..k].to_vec());
    }
    v
}

/// tree whose handlers pull parameters through every conversion kind in turn
pub fn all_conversions_tree() -> Built<Dev, Script> {
    let mut scripts = vec![];
    for (i, c) in ALL_CONVS.iter().enumerate() {
        scripts.push(Script {
            id: i as u32,
            pulls: vec![Pull { optional: i % 2 == 0, conv: *c }, Pull { optional: true, conv: ALL_CONVS[(i * 7 + 3) % ALL_CONVS.len()] }],
            emit: vec![Val::U8(1)],
            ..Default::default()
        });
    }
    let nconv = scripts.len();
    let names: [&[u8]; 8] = [b"A", b"E", b"H", b"AA", b"A1", b"AE", b"AH", b"EA"];
    let mut specs = vec![];
    let mut h = 0;
    for n in names.iter() {
        let mut sub = vec![Spec::leaf(b"", true, h % nconv)];
        h += 1;
        for m in names.iter().take(4) {
            sub.push(Spec::leaf(m, false, h % nconv));
            h += 1;
        }
        specs.push(Spec::branch(n, false, sub));
    }
    specs.push(Spec::leaf(b"*A", false, h % nconv));
    specs.push(Spec::leaf(b"*E", false, (h + 1) % nconv));
    specs.push(Spec::leaf(b"*AA", false, (h + 2) % nconv));
    Built::new(&specs, scripts)
}

/// one-handler tree: the handler pulls `conv` (required) then `conv` (optional), swallows the rest and answers with extreme numbers
pub fn single_conversion_tree(conv: Conv) -> Built<Dev, Script> {
    let script = Script {
        id: 0,
        pulls: vec![Pull { optional: false, conv }, Pull { optional: true, conv }],
        omnivore: true,
        emit: vec![Val::F64(-1.7976931348623157e308), Val::I64(i64::MIN), Val::Usize(usize::MAX), Val::F32(f32::MIN_POSITIVE), Val::Oct(u32::MAX), Val::Bin(255)],
        ..Default::default()
    };
    let specs = vec![
        Spec::branch(b"A", false, vec![Spec::leaf(b"", true, 0), Spec::leaf(b"E", false, 0), Spec::leaf(b"ABCDEFGHIJKL", false, 0)]),
        Spec::leaf(b"*A", false, 0),
        Spec::leaf(b"ABCDEFGHIJKL", false, 0),
    ];
    Built::new(&specs, vec![script])
}
