//! C04 — faithful lexing: library token stream and handler-visible tokens == RefLexer decomposition
//! (same element kinds, same byte ranges of the input); ill-formed input is rejected with a
//! command error end-to-end.
use crate::fw::*;
use crate::gen::msg::*;
use crate::mon::dev::*;
use crate::mon::tree::*;
use crate::refm::errclass::is_command_error;
use crate::refm::lexer::*;
use scpi::parser::tokenizer::{Token, Tokenizer};
use scpi::Context;
use std::collections::HashMap;

/// Flattened syntactic element for comparison
#[derive(Clone, Debug, PartialEq, Eq)]
pub enum El {
    Colon,
    Mnem(Range),
    Query,
    HeaderSep,
    Comma,
    UnitSep,
    Data(DKind, Range, Range, u64),
}

fn rel(input: &[u8], s: &[u8]) -> Range {
    let base = input.as_ptr() as usize;
    let p = s.as_ptr() as usize;
    if p < base || p + s.len() > base + input.len() {
        (usize::MAX, s.len())
    } else {
        (p - base, p - base + s.len())
    }
}

/// Tokenize with the library up to the first error, under the progress monitor.
/// Returns (elements, error code at which the stream stopped, position of the error, progress failure)
pub fn lib_elements(input: &[u8]) -> (Vec<El>, Option<i16>, usize, bool) {
    let mut t = Tokenizer::new(input);
    let mut out = Vec::new();
    let mut stalled = false;
    loop {
        let before = t.chars.as_slice().len();
        match t.next() {
            None => return (out, None, input.len(), stalled),
            Some(Err(e)) => {
                let pos = input.len() - before;
                return (out, Some(e.get_code()), pos, stalled);
            }
            Some(Ok(tok)) => {
                let after = t.chars.as_slice().len();
                if after >= before {
                    stalled = true;
                    return (out, None, input.len() - before, stalled);
                }
                out.push(match tok {
                    Token::HeaderMnemonicSeparator => El::Colon,
                    Token::HeaderQuerySuffix => El::Query,
                    Token::ProgramMessageUnitSeparator => El::UnitSep,
                    Token::ProgramHeaderSeparator => El::HeaderSep,
                    Token::ProgramDataSeparator => El::Comma,
                    Token::ProgramMnemonic(s) => El::Mnem(rel(input, s)),
                    Token::CharacterProgramData(s) => El::Data(DKind::Char, rel(input, s), (0, 0), 0),
                    Token::DecimalNumericProgramData(s) => El::Data(DKind::Dec, rel(input, s), (0, 0), 0),
                    Token::DecimalNumericSuffixProgramData(s, x) => El::Data(DKind::DecSuffix, rel(input, s), rel(input, x), 0),
                    Token::NonDecimalNumericProgramData(v) => El::Data(DKind::NonDec, (0, 0), (0, 0), v),
                    Token::StringProgramData(s) => El::Data(DKind::Str, rel(input, s), (0, 0), 0),
                    Token::ArbitraryBlockData(s) => El::Data(DKind::Block, rel(input, s), (0, 0), 0),
                    Token::ExpressionProgramData(s) => El::Data(DKind::Expr, rel(input, s), (0, 0), 0),
                });
            }
        }
    }
}

pub fn ref_elements(a: &Accepted) -> Vec<El> {
    let mut out = Vec::new();
    for (i, u) in a.units.iter().enumerate() {
        if i > 0 {
            out.push(El::UnitSep);
        }
        if u.leading_colon {
            out.push(El::Colon);
        }
        for (k, m) in u.mnemonics.iter().enumerate() {
            if k > 0 {
                out.push(El::Colon);
            }
            out.push(El::Mnem(*m));
        }
        if u.query {
            out.push(El::Query);
        }
        for (k, d) in u.data.iter().enumerate() {
            out.push(if k == 0 { El::HeaderSep } else { El::Comma });
            out.push(match d.kind {
                DKind::NonDec => El::Data(d.kind, (0, 0), (0, 0), d.value),
                DKind::DecSuffix => El::Data(d.kind, d.a, d.b, 0),
                _ => El::Data(d.kind, d.a, (0, 0), 0),
            });
        }
    }
    if a.trailing_semicolon {
        out.push(El::UnitSep);
    }
    out
}

/// Drop header separators that only cover white space before `;` or the end (lexer artefact: the
/// grammar attributes that white space to the separator / terminator).
fn normalise(mut v: Vec<El>) -> Vec<El> {
    let mut out = Vec::with_capacity(v.len());
    let n = v.len();
    for i in 0..n {
        if v[i] == El::HeaderSep && (i + 1 == n || v[i + 1] == El::UnitSep) {
            continue;
        }
        out.push(std::mem::replace(&mut v[i], El::Colon));
    }
    out
}

// ---- permissive trees -------------------------------------------------------------------------

#[derive(Default, Clone)]
struct Trie {
    name: Vec<u8>,
    endpoint: bool,
    children: Vec<Trie>,
}

fn canon_key(m: &[u8]) -> (Vec<u8>, Vec<u8>) {
    let (h, s) = crate::refm::mnemonic::split_suffix(m);
    if h.is_empty() {
        return (m.to_ascii_uppercase(), vec![]);
    }
    (h.to_ascii_uppercase(), if s.is_empty() { b"1".to_vec() } else { s.to_vec() })
}

impl Trie {
    fn insert(&mut self, path: &[Vec<u8>]) {
        if path.is_empty() {
            self.endpoint = true;
            return;
        }
        let key = canon_key(&path[0]);
        let idx = match self.children.iter().position(|c| canon_key(&c.name) == key) {
            Some(i) => i,
            None => {
                self.children.push(Trie { name: path[0].to_ascii_uppercase(), endpoint: false, children: vec![] });
                self.children.len() - 1
            }
        };
        self.children[idx].insert(&path[1..]);
    }
    fn to_specs(&self) -> Vec<Spec> {
        let mut v = Vec::new();
        // shorter names first: the library treats every non-upper-case, non-digit character of a
        // *definition* as optional tail, so `H_` would also match a received `h`; SCPI-shaped
        // definitions never contain `_`, the ordering keeps these synthetic names unambiguous
        let mut kids: Vec<&Trie> = self.children.iter().collect();
        kids.sort_by_key(|c| c.name.len());
        for c in kids {
            if c.children.is_empty() {
                v.push(Spec::leaf(&c.name, false, 0));
            } else {
                let mut sub = Vec::new();
                if c.endpoint {
                    sub.push(Spec::leaf(b"", true, 0));
                }
                sub.extend(c.to_specs());
                v.push(Spec::branch(&c.name, false, sub));
            }
        }
        v
    }
}

/// Headers (per unit: leading colon, common, mnemonic texts) -> tree in which all of them resolve
/// under the SCPI path rule.
pub fn permissive_specs(headers: &[(bool, bool, Vec<Vec<u8>>)]) -> Vec<Spec> {
    let mut root = Trie::default();
    let mut cur: Vec<Vec<u8>> = vec![];
    for (i, (colon, common, mn)) in headers.iter().enumerate() {
        if mn.is_empty() {
            continue;
        }
        // only names of mnemonic shape: [*]alpha(alnum|_)*. No length limit: the library does not restrict
        // definitions, and a lexer that let an over-long mnemonic through must find a node to execute
        // (otherwise -113 from the dispatcher would hide the missing lexical rejection)
        let valid = |m: &Vec<u8>| {
            let b = if m.first() == Some(&b'*') { &m[1..] } else { &m[..] };
            // (bytes >= 0x80 only ever get here from the library's own tokens of a message the reference rejects:
            // a lexer that let them into a mnemonic must find a node too)
            !b.is_empty() && (b[0].is_ascii_alphabetic() || b[0] >= 0x80) && b.iter().all(|c| c.is_ascii_alphanumeric() || *c == b'_' || *c >= 0x80)
        };
        if !mn.iter().all(valid) {
            continue;
        }
        if *common {
            root.insert(&[mn[0].clone()]);
            continue;
        }
        let mut full = if *colon || i == 0 { vec![] } else { cur.clone() };
        full.extend(mn.iter().cloned());
        root.insert(&full);
        full.pop();
        cur = full;
    }
    root.to_specs()
}

fn headers_of_ref(input: &[u8], a: &Accepted) -> Vec<(bool, bool, Vec<Vec<u8>>)> {
    a.units.iter().map(|u| (u.leading_colon, u.common, u.mnemonics.iter().map(|r| input[r.0..r.1].to_vec()).collect())).collect()
}

fn headers_of_lib(input: &[u8], els: &[El]) -> Vec<(bool, bool, Vec<Vec<u8>>)> {
    let mut out = Vec::new();
    let mut cur: (bool, bool, Vec<Vec<u8>>) = (false, false, vec![]);
    let mut at_start = true;
    for e in els {
        match e {
            El::UnitSep => {
                out.push(std::mem::replace(&mut cur, (false, false, vec![])));
                at_start = true;
            }
            El::Colon => {
                if at_start {
                    cur.0 = true;
                }
                at_start = false;
            }
            El::Mnem(r) if r.0 != usize::MAX => {
                let m = input[r.0..r.1].to_vec();
                if m.first() == Some(&b'*') {
                    cur.1 = true;
                }
                cur.2.push(m);
                at_start = false;
            }
            _ => at_start = false,
        }
    }
    out.push(cur);
    out
}

thread_local! {
    static TREES: std::cell::RefCell<HashMap<u64, std::rc::Rc<Built<Dev, Script>>>> = std::cell::RefCell::new(HashMap::new());
}

fn tree_for(headers: &[(bool, bool, Vec<Vec<u8>>)]) -> std::rc::Rc<Built<Dev, Script>> {
    let mut h = 17u64;
    for (c, k, m) in headers {
        h = mix(h, *c as u64 * 2 + *k as u64);
        for x in m {
            h = mix(h, hash_bytes(x));
        }
        h = mix(h, 0xfe);
    }
    TREES.with(|t| {
        let mut t = t.borrow_mut();
        if t.len() > 20_000 {
            t.clear();
        }
        t.entry(h)
            .or_insert_with(|| {
                let specs = permissive_specs(headers);
                std::rc::Rc::new(Built::new(&specs, vec![Script { id: 0, omnivore: true, ..Default::default() }]))
            })
            .clone()
    })
}

fn el_name(e: &El) -> String {
    match e {
        El::Data(k, ..) => k.name().to_string(),
        El::Mnem(_) => "mnemonic".into(),
        El::Colon => "colon".into(),
        El::Query => "query".into(),
        El::HeaderSep => "header-separator".into(),
        El::Comma => "comma".into(),
        El::UnitSep => "unit-separator".into(),
    }
}

/// which reference element covers byte `pos`
fn ref_feature_at(a: &Accepted, pos: usize) -> String {
    for u in &a.units {
        for m in &u.mnemonics {
            if pos >= m.0 && pos < m.1 {
                return "mnemonic".into();
            }
        }
        for d in &u.data {
            if pos >= d.span.0 && pos < d.span.1 {
                return d.kind.name().into();
            }
        }
    }
    "separator-or-white-space".into()
}

pub struct Verdict {
    pub class: &'static str,
}

/// Judge one input. `tag` names the generator class for the evidence.
pub fn judge(ctx: &mut Ctx, input: &[u8], tag: &str) -> &'static str {
    judge_with(ctx, input, tag, None)
}

/// `origin`: the well-formed message `input` was derived from by a corruption. The acceptor tree used for an input the
/// reference rejects then also defines every header of the original, so that a corruption the library silently removes or
/// skips (and thereby executes the original) cannot hide behind "undefined header".
pub fn judge_with(ctx: &mut Ctx, input: &[u8], tag: &str, origin: Option<&[u8]>) -> &'static str {
    bump(ctx, 1);
    let lx = lex_message(input);
    // White space before the first header is consumed by `Node::run` (the unit of observation for
    // it is the end-to-end run below); the bare Tokenizer is compared from the first non-blank byte.
    let lead = match &lx {
        Lex::Accept(a) if a.leading_ws => input.iter().take_while(|c| is_ws(**c)).count(),
        _ => 0,
    };
    let (mut els, err, mut errpos, stalled) = lib_elements(&input[lead..]);
    if lead > 0 {
        errpos += lead;
        let sh = |r: &mut Range| {
            if r.0 != usize::MAX && !(r.0 == 0 && r.1 == 0) {
                r.0 += lead;
                r.1 += lead;
            }
        };
        for e in els.iter_mut() {
            match e {
                El::Mnem(r) => sh(r),
                El::Data(k, a, b, _) => {
                    if *k != DKind::NonDec {
                        sh(a);
                    }
                    if *k == DKind::DecSuffix {
                        sh(b);
                    }
                }
                _ => {}
            }
        }
    }
    if stalled {
        ctx.violation("C04:token-consumed-no-input", jobj(&[("input", jbytes(input)), ("at", errpos.to_string())]));
    }
    match lx {
        Lex::Unspecified(z) => {
            ctx.count(&format!("ref.unspecified.{}", z));
            "unspecified"
        }
        Lex::Accept(a) => {
            ctx.count(&format!("{}.ref.accept", tag));
            for u in &a.units {
                for d in &u.data {
                    ctx.count(&format!("accepted-data.{}", d.kind.name()));
                }
            }
            if a.leading_ws {
                ctx.count("accept.with-leading-ws");
            }
            // ---- token level
            let want = ref_elements(&a);
            if let Some(code) = err {
                let feat = ref_feature_at(&a, errpos);
                ctx.violation(
                    &format!("C04:well-formed-rejected-by-lexer:at-{}:{}", feat, code),
                    jobj(&[("input", jbytes(input)), ("hex", jstr(&hex(input))), ("error", code.to_string()), ("at_byte", errpos.to_string())]),
                );
                return "accept";
            }
            let got = normalise(els.clone());
            if got != want {
                // find first difference
                let k = got.iter().zip(want.iter()).position(|(x, y)| x != y).unwrap_or(got.len().min(want.len()));
                let gk = got.get(k).map(el_name).unwrap_or("end".into());
                let wk = want.get(k).map(el_name).unwrap_or("end".into());
                let sig = if gk == wk { format!("C04:element-payload-differs:{}", gk) } else { format!("C04:element-sequence-differs:expected-{}-got-{}", wk, gk) };
                ctx.violation(&sig, jobj(&[("input", jbytes(input)), ("hex", jstr(&hex(input))), ("index", k.to_string()), ("library", jstr(&format!("{:?}", got.get(k)))), ("reference", jstr(&format!("{:?}", want.get(k))))]));
                return "accept";
            }
            ctx.add("elements.compared", want.len() as u64);
            // ---- the data of each unit through the lexer's second entry point (`Tokenizer::new_params`, the way
            //      parameters are lexed on their own): same elements, same byte ranges
            for u in &a.units {
                if u.data.is_empty() {
                    continue;
                }
                let (s0, mut s1) = (u.data[0].span.0, u.data.last().unwrap().span.1);
                let last = u.data.last().unwrap();
                if last.kind == DKind::Block && input[last.span.0..].starts_with(b"#0") {
                    // an indefinite block ends with the NL that terminates the message: it belongs to the element
                    s1 = (last.a.1 + 1).min(input.len()).max(s1);
                }
                let region = &input[s0..s1];
                let mut tz = Tokenizer::new_params(region);
                let mut got: Vec<El> = vec![];
                let mut perr: Option<i16> = None;
                for _ in 0..2 * u.data.len() + 2 {
                    match tz.next() {
                        None => break,
                        Some(Err(e)) => {
                            perr = Some(e.get_code());
                            break;
                        }
                        Some(Ok(tok)) => got.push(match tok {
                            Token::ProgramDataSeparator => El::Comma,
                            Token::CharacterProgramData(s) => El::Data(DKind::Char, rel(input, s), (0, 0), 0),
                            Token::DecimalNumericProgramData(s) => El::Data(DKind::Dec, rel(input, s), (0, 0), 0),
                            Token::DecimalNumericSuffixProgramData(s, x) => El::Data(DKind::DecSuffix, rel(input, s), rel(input, x), 0),
                            Token::NonDecimalNumericProgramData(v) => El::Data(DKind::NonDec, (0, 0), (0, 0), v),
                            Token::StringProgramData(s) => El::Data(DKind::Str, rel(input, s), (0, 0), 0),
                            Token::ArbitraryBlockData(s) => El::Data(DKind::Block, rel(input, s), (0, 0), 0),
                            Token::ExpressionProgramData(s) => El::Data(DKind::Expr, rel(input, s), (0, 0), 0),
                            _ => El::Colon,
                        }),
                    }
                }
                let mut wantp: Vec<El> = vec![];
                for (k, d) in u.data.iter().enumerate() {
                    if k > 0 {
                        wantp.push(El::Comma);
                    }
                    wantp.push(match d.kind {
                        DKind::NonDec => El::Data(d.kind, (0, 0), (0, 0), d.value),
                        DKind::DecSuffix => El::Data(d.kind, d.a, d.b, 0),
                        _ => El::Data(d.kind, d.a, (0, 0), 0),
                    });
                }
                ctx.count("params-entry-point.units-compared");
                if perr.is_some() || got != wantp {
                    ctx.violation(
                        "C04:parameter-lexer-entry-point-differs",
                        jobj(&[("input", jbytes(input)), ("data_region", jbytes(region)), ("error", jstr(&format!("{:?}", perr))), ("library", jstr(&format!("{:?}", got))), ("reference", jstr(&format!("{:?}", wantp)))]),
                    );
                    return "accept";
                }
            }
            // ---- end to end through Node::run with omnivorous handlers
            if a.units.is_empty() {
                return "accept";
            }
            let hs = headers_of_ref(input, &a);
            // The end-to-end run needs a tree that defines the received mnemonics. A *definition* containing `_`
            // is outside SCPI shape (the library treats `_` in a definition as optional tail, so `A_` also matches
            // a received `a1`); such headers are only compared at token level above.
            if hs.iter().any(|h| h.2.iter().any(|m| m.contains(&b'_'))) {
                ctx.count("end-to-end.skipped(underscore in a header mnemonic)");
                return "accept";
            }
            let tree = tree_for(&hs);
            let mut dev = Dev::new();
            let mut c = Context::default();
            let mut resp: Vec<u8> = Vec::new();
            let r = tree.root().run(input, &mut dev, &mut c, &mut resp);
            if let Err(e) = r {
                let feat = if a.leading_ws { "leading-white-space" } else { "dispatch" };
                ctx.violation(
                    &format!("C04:well-formed-rejected-by-run:{}:{}", feat, e.get_code()),
                    jobj(&[("input", jbytes(input)), ("hex", jstr(&hex(input))), ("error", e.get_code().to_string())]),
                );
                return "accept";
            }
            // offered tokens per unit
            let base = input.as_ptr() as usize;
            let mut unit = 0usize;
            let mut k = 0usize;
            let mut bad: Option<String> = None;
            for ev in &dev.log {
                match ev {
                    Ev::Invoke { query, .. } => {
                        if unit >= a.units.len() {
                            bad = Some("more-invocations-than-units".into());
                            break;
                        }
                        if *query != a.units[unit].query {
                            bad = Some("wrong-form".into());
                            break;
                        }
                        k = 0;
                    }
                    Ev::Offer { kind, a: pa, b: pb, value } => {
                        let want = a.units.get(unit).and_then(|u| u.data.get(k));
                        let ok = match want {
                            None => false,
                            Some(d) => {
                                d.kind == *kind
                                    && match kind {
                                        DKind::NonDec => d.value == *value,
                                        DKind::DecSuffix => pa.0 == base + d.a.0 && pa.1 == d.a.1 - d.a.0 && pb.0 == base + d.b.0 && pb.1 == d.b.1 - d.b.0,
                                        _ => pa.0 == base + d.a.0 && pa.1 == d.a.1 - d.a.0,
                                    }
                            }
                        };
                        if !ok {
                            bad = Some(format!("offered-token-differs:{}", kind.name()));
                            break;
                        }
                        k += 1;
                    }
                    Ev::Return { .. } => {
                        if a.units.get(unit).map_or(0, |u| u.data.len()) != k {
                            bad = Some("handler-saw-fewer-tokens-than-unit-has".into());
                            break;
                        }
                        unit += 1;
                    }
                    _ => {}
                }
            }
            if bad.is_none() && unit != a.units.len() {
                bad = Some("fewer-invocations-than-units".into());
            }
            if let Some(b) = bad {
                ctx.violation(&format!("C04:end-to-end:{}", b), jobj(&[("input", jbytes(input)), ("hex", jstr(&hex(input))), ("log", jstr(&format!("{:?}", dev.log)))]));
            }
            ctx.add("tokens.offered-to-handlers", dev.log.iter().filter(|e| matches!(e, Ev::Offer { .. })).count() as u64);
            "accept"
        }
        Lex::Reject(reason, at) => {
            ctx.count(&format!("{}.ref.reject", tag));
            ctx.count(&format!("reject.{}", reason));
            let mut hs = headers_of_lib(input, &els);
            if let Some(o) = origin {
                let (oels, _, _, _) = lib_elements(o);
                for h in headers_of_lib(o, &oels) {
                    if !hs.contains(&h) {
                        hs.push(h);
                    }
                }
            }
            let tree = tree_for(&hs);
            let mut dev = Dev::new();
            let mut c = Context::default();
            let mut resp: Vec<u8> = Vec::new();
            let r = tree.root().run(input, &mut dev, &mut c, &mut resp);
            match r {
                Ok(()) => ctx.violation(
                    &format!("C04:ill-formed-accepted:{}", reason),
                    jobj(&[("input", jbytes(input)), ("hex", jstr(&hex(input))), ("reference", jstr(&format!("reject at byte {}: {}", at, reason))), ("library_tokens", jstr(&format!("{:?}", els)))]),
                ),
                Err(e) if !is_command_error(e.get_code()) => ctx.violation(
                    &format!("C04:ill-formed-rejected-with-non-command-error:{}:{}", reason, e.get_code()),
                    jobj(&[("input", jbytes(input)), ("hex", jstr(&hex(input))), ("error", e.get_code().to_string())]),
                ),
                Err(e) => {
                    ctx.count(&format!("rejected-with.{}", e.get_code()));
                    if err.is_some() {
                        ctx.count("rejected-by.lexer");
                    } else {
                        ctx.count("rejected-by.dispatcher");
                        ctx.count(&format!("rejected-by.dispatcher.{}.{}", reason, e.get_code()));
                    }
                }
            }
            "reject"
        }
    }
}

// ---- generators --------------------------------------------------------------------------------

pub fn gen_mnemonic(rng: &mut Rng) -> Vec<u8> {
    let n = match rng.usize(8) {
        0 => 12,
        1 => 1,
        _ => 1 + rng.usize(8),
    };
    const AL: &[u8] = b"ABCDEFGHIJKLMNOPQRSTUVWXYZabcdefghijklmnopqrstuvwxyz0123456789";
    let mut v = vec![if rng.bool() { b'A' + rng.usize(26) as u8 } else { b'a' + rng.usize(26) as u8 }];
    for _ in 1..n {
        // `_` is legal but rare (headers containing it are only compared at token level, see judge())
        v.push(if rng.chance(1, 120) { b'_' } else { *rng.pick(AL) });
    }
    v
}

/// A well-formed message: returns bytes and the intended structure (kinds per unit) for the oracle self-check
pub fn gen_message(rng: &mut Rng) -> (Vec<u8>, Vec<(bool, usize, Vec<DKind>)>) {
    let mut out = Vec::new();
    let mut shape = Vec::new();
    let mu = if rng.chance(1, 4) { 5 } else { 2 };
    let nunits = 1 + rng.usize(mu);
    let mut ending = *rng.pick(&ENDINGS);
    if rng.chance(1, 12) {
        ws1(rng, &mut out); // leading white space (488.2 allows it before a header)
    }
    for u in 0..nunits {
        if u > 0 {
            ws0(rng, &mut out);
            out.push(b';');
            ws0(rng, &mut out);
        }
        let mut nm = 0;
        if rng.chance(1, 5) {
            out.push(b'*');
            let mut m = gen_mnemonic(rng);
            m.truncate(11);
            out.extend_from_slice(&m);
            nm = 1;
        } else {
            if rng.chance(1, 3) {
                out.push(b':');
            }
            let depth = 1 + rng.usize(3);
            for k in 0..depth {
                if k > 0 {
                    out.push(b':');
                }
                out.extend_from_slice(&gen_mnemonic(rng));
                nm += 1;
            }
        }
        let query = rng.chance(1, 3);
        if query {
            out.push(b'?');
        }
        let md = if rng.chance(1, 5) { 6 } else { 3 };
        let nd = if rng.chance(1, 4) { 0 } else { 1 + rng.usize(md) };
        let mut kinds = Vec::new();
        if nd > 0 {
            ws1(rng, &mut out);
            let mut data = Vec::new();
            for _ in 0..nd {
                let k = any_kind(rng);
                kinds.push(k);
                data.push(gen_datum(rng, k));
            }
            // indefinite-length block as the very last element of the message
            if u + 1 == nunits && rng.chance(1, 10) {
                let n = rng.usize(12);
                let mut t = b"#0".to_vec();
                for _ in 0..n {
                    t.push(*rng.pick(b";,\n'\"ab 1#()"));
                }
                data.push(GDatum { kind: DKind::Block, text: t });
                kinds.push(DKind::Block);
                ending = Ending::Nl;
                render_data(rng, &data, &mut out);
                out.push(b'\n');
                shape.push((query, nm, kinds));
                return (out, shape);
            }
            render_data(rng, &data, &mut out);
        }
        shape.push((query, nm, kinds));
    }
    if matches!(ending, Ending::Ws | Ending::WsNl) {
        // white space before the terminator
    }
    render_ending(rng, ending, &mut out);
    (out, shape)
}

/// Targeted single-point corruptions producing the ill-formedness classes the property names.
pub fn corrupt(rng: &mut Rng, msg: &[u8]) -> (Vec<u8>, &'static str) {
    let mut v = msg.to_vec();
    if v.is_empty() {
        v.push(b'A');
    }
    let pos = rng.usize(v.len());
    match rng.usize(16) {
        15 => {
            // a complete, well-formed multi-byte UTF-8 character (still non-ASCII bytes outside block data)
            let ch: &[u8] = *rng.pick(&[&b"\xc2\xb5"[..], b"\xc3\xa9", b"\xe2\x82\xac", b"\xf0\x9f\x98\x80", b"\xc2\xb0", b"\xce\xa9", b"\xef\xbb\xbf", b"\xef\xbb\xbf"]);
            // preferably inside a quoted string, where a lenient reader would be tempted to let it through; a byte order
            // mark preferably at the very start of the message, where an editor puts it
            let at = if ch == b"\xef\xbb\xbf" && rng.chance(3, 4) {
                0
            } else {
                match v.iter().position(|c| *c == b'\'' || *c == b'"') {
                    Some(q) if rng.chance(2, 3) => q + 1,
                    _ => pos,
                }
            };
            for (i, b) in ch.iter().enumerate() {
                v.insert(at + i, *b);
            }
            (v, "insert-utf8-character")
        }
        14 => {
            // an expression holding what 488.2 7.7.7.2 excludes: quoted text (also with separators and parentheses
            // between the quotes), nested parentheses, `;` - put in a unit of its own in front of the message
            let e: &[u8] = *rng.pick(&[
                &b"(@'a',1)"[..], b"(@\"MOD:A\",2)", b"(@1,'x')", b"('a')", b"(\"a\")", b"(@\"1);QX (2\")", b"(@'1,2',3)", b"(@'a''b')", b"(1;2)", b"((1))", b"(@(1))", b"(@1,(2))", b"(@'a;b')", b"(@\"a)b\")", b"(1,'')",
            ]);
            let mut w = b"QX ".to_vec();
            w.extend_from_slice(e);
            w.push(b';');
            w.extend_from_slice(&v);
            (w, "excluded-text-inside-expression")
        }
        0 => {
            // over-long identifier: stretch an alphanumeric run to 13+
            if let Some(p) = v.iter().position(|c| c.is_ascii_alphabetic()) {
                let n = 13 + rng.usize(4);
                for _ in 0..n {
                    v.insert(p + 1, b'A' + rng.usize(26) as u8);
                }
            }
            (v, "stretch-identifier")
        }
        1 => {
            // drop a closing quote / paren / block bytes: truncate
            let cut = 1 + rng.usize(v.len());
            v.truncate(cut);
            (v, "truncate")
        }
        2 => {
            v[pos] = 0x80 + rng.usize(128) as u8;
            (v, "non-ascii-byte")
        }
        3 => {
            v.insert(pos, b':');
            (v, "insert-colon")
        }
        4 => {
            v.insert(pos, b',');
            (v, "insert-comma")
        }
        5 => {
            // remove a separator
            if let Some(p) = v.iter().position(|c| *c == b',' || *c == b';') {
                v.remove(p);
            }
            (v, "remove-separator")
        }
        6 => {
            // replace a comma by a space: missing separator
            if let Some(p) = v.iter().position(|c| *c == b',') {
                v[p] = b' ';
            }
            (v, "comma-to-space")
        }
        7 => {
            v.insert(pos, *rng.pick(b"'\""));
            (v, "insert-quote")
        }
        8 => {
            v.insert(pos, *rng.pick(b"()"));
            (v, "insert-paren")
        }
        9 => {
            v.insert(pos, b'#');
            (v, "insert-hash")
        }
        10 => {
            v.insert(pos, b'?');
            (v, "insert-question")
        }
        11 => {
            v.remove(pos);
            (v, "delete-byte")
        }
        12 => {
            v[pos] = *rng.pick(b"!@$%^&=<>[]{}|~`\\\x7f");
            (v, "foreign-ascii")
        }
        _ => {
            v.insert(pos, *rng.pick(b"+-.0123456789eE"));
            (v, "insert-numeric-char")
        }
    }
}

pub const SWEEP_ALPHABET: &[u8] = b"A*:?;, \n1.E+#H'\"()@!\xff\x00";

pub fn run(cfg: &Cfg, rep: &mut Report) {
    // (1) grammar-generated well-formed messages
    let n = cfg.n(300, 4_500_000, 90_000_000);
    run_cases(cfg, "generated", n, rep, |rng, ctx| {
        let (m, shape) = gen_message(rng);
        // oracle self-check: the reference must accept what the generator built, with the same shape
        match lex_message(&m) {
            Lex::Accept(a) => {
                let got: Vec<(bool, usize, Vec<DKind>)> = a.units.iter().map(|u| (u.query, u.mnemonics.len(), u.data.iter().map(|d| d.kind).collect())).collect();
                if got != shape {
                    ctx.count("SELFCHECK-FAILED.reference-decomposition-differs-from-generator");
                    ctx.sample(|| jobj(&[("selfcheck_failed", jbytes(&m))]));
                    return;
                }
                let mut h = 0u64;
                for (q, nm, ks) in &shape {
                    h = mix(h, *q as u64 + 2 * *nm as u64);
                    for k in ks {
                        h = mix(h, *k as u64 + 100);
                    }
                }
                ctx.nontrivial(mix(h, hash_bytes(&m)));
            }
            Lex::Unspecified(_) => {}
            Lex::Reject(r, at) => {
                ctx.count("SELFCHECK-FAILED.reference-rejects-generated-message");
                ctx.sample(|| jobj(&[("selfcheck_failed", jbytes(&m)), ("reason", jstr(r)), ("at", at.to_string())]));
                return;
            }
        }
        judge(ctx, &m, "generated");
        ctx.sample(|| jobj(&[("well_formed_message", jbytes(&m))]));
    });
    // (2) targeted corruptions
    let n = cfg.n(300, 4_500_000, 90_000_000);
    run_cases(cfg, "corrupted", n, rep, |rng, ctx| {
        let (m, _) = gen_message(rng);
        let (c, op) = corrupt(rng, &m);
        let v = judge_with(ctx, &c, "corrupted", Some(&m));
        ctx.count(&format!("corruption.{}.{}", op, v));
        if v == "reject" {
            ctx.nontrivial(hash_bytes(&c));
        }
        if ctx.index % 1000 == 7 {
            ctx.sample(|| jobj(&[("corrupted_message", jbytes(&c)), ("operator", jstr(op)), ("reference", jstr(v))]));
        }
    });
    // (2a) non-decimal literals at and beyond the 64-bit boundary. The element type carries a u64, so "carry
    // their exact value" is decidable either way: a literal that fits must come out exact, one that does
    // not fit cannot be carried and must not be turned into some other value (any error is accepted).
    let n = cfg.n(40, 400_000, 20_000_000);
    run_cases(cfg, "nondecimal-boundary", n, rep, |rng, ctx| {
        let (lit, exact) = crate::gen::msg::gen_nondec_wide(rng);
        let mut text = lit.clone();
        let tail = rng.usize(3);
        match tail {
            0 => {}
            1 => text.extend_from_slice(b" , 'x'"),
            _ => text.extend_from_slice(b",#H1"),
        }
        bump(ctx, 1);
        ctx.nontrivial(hash_bytes(&text));
        let mut tz = Tokenizer::new_params(&text);
        let first = tz.next();
        match (exact, first) {
            (Some(v), Some(Ok(Token::NonDecimalNumericProgramData(got)))) if got == v => {
                ctx.count("nondecimal-boundary.exact");
                if tail > 0 && !matches!(tz.next(), Some(Ok(Token::ProgramDataSeparator))) {
                    ctx.violation("C04:non-decimal-boundary:element-boundary", jobj(&[("input", jbytes(&text))]));
                }
            }
            (None, Some(Err(e))) => ctx.count(&format!("nondecimal-boundary.beyond-64-bit.rejected-with.{}", e.get_code())),
            (_, other) => ctx.violation(
                if exact.is_some() { "C04:non-decimal-value-not-exact" } else { "C04:non-decimal-beyond-64-bit-accepted-with-some-value" },
                jobj(&[("input", jbytes(&text)), ("exact_value_if_it_fits_u64", jstr(&format!("{:?}", exact))), ("library", jstr(&format!("{:?}", other)))]),
            ),
        }
    });
    // (2b) scale: one dimension of an otherwise ordinary message blown up past every 8/16-bit counter
    let n = cfg.n(6, 3_000, 60_000);
    run_cases(cfg, "scale", n, rep, |rng, ctx| {
        let big = match rng.usize(4) {
            0 => 256 + rng.usize(16),
            1 => 300 + rng.usize(700),
            2 => 65_530 + rng.usize(12),
            _ => 1_000 + rng.usize(9_000),
        };
        let big = if ctx.cfg.tiny { 256 + rng.usize(8) } else { big };
        let mut m: Vec<u8> = Vec::new();
        let dim = rng.usize(9);
        let name = ["long-string", "long-white-space", "many-digits", "many-data-elements", "many-units", "long-block", "long-expression", "deep-header", "many-fraction-and-exponent-digits"][dim];
        match dim {
            0 => {
                let q = if rng.bool() { b'"' } else { b'\'' };
                m.extend_from_slice(b"A 1,");
                m.push(q);
                for i in 0..big {
                    let c = b' ' + ((i * 7 + rng.usize(3)) % 95) as u8;
                    if c == q {
                        m.push(q);
                    }
                    m.push(c);
                }
                m.push(q);
                m.extend_from_slice(b",2;B?");
            }
            1 => {
                m.extend_from_slice(b"A");
                for _ in 0..big {
                    m.push(*rng.pick(WS));
                }
                m.extend_from_slice(b"1");
                for _ in 0..big {
                    m.push(*rng.pick(WS));
                }
                m.extend_from_slice(b",");
                for _ in 0..big {
                    m.push(*rng.pick(WS));
                }
                m.extend_from_slice(b"'x'");
                for _ in 0..big / 2 {
                    m.push(b' ');
                }
                m.extend_from_slice(b";");
                for _ in 0..big {
                    m.push(b' ');
                }
                m.extend_from_slice(b"B");
            }
            2 => {
                m.extend_from_slice(b"A ");
                for _ in 0..big.min(20_000) {
                    m.push(b'0' + rng.usize(10) as u8);
                }
                m.extend_from_slice(b",7 V;B");
            }
            3 => {
                m.extend_from_slice(b"A ");
                for i in 0..big.min(5_000) {
                    if i > 0 {
                        m.push(b',');
                    }
                    let k = any_kind(rng);
                    m.extend_from_slice(&gen_datum(rng, k).text);
                }
            }
            4 => {
                for i in 0..big.min(3_000) {
                    if i > 0 {
                        m.push(b';');
                    }
                    m.extend_from_slice(if i % 3 == 0 { b":A:B 1" } else if i % 3 == 1 { b"C?" } else { b"*D 'x;'" });
                }
            }
            5 => {
                let len = big;
                let ls = len.to_string();
                let width = (ls.len() + rng.usize(3)).min(9);
                m.extend_from_slice(b"A #");
                m.push(b'0' + width as u8);
                for _ in 0..width - ls.len() {
                    m.push(b'0');
                }
                m.extend_from_slice(ls.as_bytes());
                for _ in 0..len {
                    m.push(rng.next() as u8);
                }
                m.extend_from_slice(b",5;B");
            }
            6 => {
                m.extend_from_slice(b"A (");
                for i in 0..big {
                    m.push(b"0123456789,:!@ "[(i + rng.usize(2)) % 15]);
                }
                m.extend_from_slice(b"),1");
            }
            7 => {
                for i in 0..big.min(2_000) {
                    if i > 0 {
                        m.push(b':');
                    }
                    m.extend_from_slice(b"AB");
                }
                m.extend_from_slice(b"? 1");
            }
            _ => {
                m.extend_from_slice(b"A 1.");
                for _ in 0..big.min(20_000) {
                    m.push(b'0' + rng.usize(10) as u8);
                }
                m.extend_from_slice(b"E-");
                for _ in 0..(1 + rng.usize(3)) {
                    m.push(b'0' + rng.usize(10) as u8);
                }
                m.extend_from_slice(b" HZ");
            }
        }
        ctx.count(&format!("scale.{}", name));
        ctx.nontrivial(mix(hash_str(name), big as u64));
        let v = judge(ctx, &m, "scale");
        ctx.count(&format!("scale.verdict.{}", v));
    });
    // (3) bounded-exhaustive sweep over one representative byte per lexical class
    let maxlen: u32 = if cfg.tiny { 2 } else if cfg.quick() { 5 } else { 6 };
    let al = SWEEP_ALPHABET;
    let k = al.len() as u64;
    // chunk by the first two symbols to parallelise
    let chunks = k * k;
    let before = rep.counters.get("stage.sweep.truncated").copied();
    run_cases(cfg, "sweep", chunks + 1, rep, |_rng, ctx| {
        let mut buf: Vec<u8> = Vec::new();
        if ctx.index == chunks {
            // lengths 0 and 1
            judge(ctx, b"", "sweep");
            for c in al {
                judge(ctx, &[*c], "sweep");
            }
            return;
        }
        let c0 = al[(ctx.index / k) as usize];
        let c1 = al[(ctx.index % k) as usize];
        for len in 2..=maxlen {
            let rest = len - 2;
            let total = k.pow(rest);
            for mut x in 0..total {
                buf.clear();
                buf.push(c0);
                buf.push(c1);
                for _ in 0..rest {
                    buf.push(al[(x % k) as usize]);
                    x /= k;
                }
                let v = judge(ctx, &buf, "sweep");
                if v != "unspecified" {
                    ctx.nontrivial(hash_bytes(&buf));
                }
            }
        }
    });
    let complete = cfg.only.is_none() && cfg.shard.1 == 1 && rep.counters.get("stage.sweep.truncated").copied() == before;
    rep.exhaustive.insert(format!("all strings of length <= {} over the {} class representatives A*:?;,SP NL 1.E+#H'\"()@! 0xFF NUL", maxlen, al.len()), complete);
}
