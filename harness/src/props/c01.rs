//! C01 — arbitrary input is processed totally: no panic, overflow trap, out-of-bounds, hang, or
//! `-300 Internal parser error`; same for every typed conversion of every data element and for
//! list-expression iteration up to the first error. Runs in release and debug(+overflow checks)
//! builds; the boundary subset also under Miri and ASan.
use crate::fw::*;
use crate::gen::msg::*;
use crate::gen::scen::*;
use crate::gen::tree::*;
use crate::mon::capdispatch::{run_cap, CAPS};
use crate::mon::dev::*;
use crate::mon::tree::*;
use crate::props::c01_boundary::*;
use crate::props::c04::{corrupt, gen_message, SWEEP_ALPHABET};
use crate::refm::resolver::RTree;
use scpi::error::Error;
use scpi::parser::expression::channel_list::ChannelList;
use scpi::parser::expression::numeric_list::NumericList;
use scpi::parser::tokenizer::Tokenizer;
use scpi::Context;

fn is_internal(e: &Error) -> bool {
    e.get_code() == -300 && e.get_extended().map_or(false, |x| x.starts_with(b"Internal parser error"))
}

fn check_result(ctx: &mut Ctx, what: &str, input: &[u8], r: &Result<(), Error>, extra: &str) {
    match r {
        Ok(()) => ctx.count("result.ok"),
        Err(e) => {
            ctx.count(&format!("result.err.{}", e.get_code()));
            if is_internal(e) {
                ctx.violation(&format!("C01:internal-parser-error-surfaced:{}", what), jobj(&[("input", jbytes(input)), ("hex", jstr(&hex(input))), ("context", jstr(extra))]));
            }
        }
    }
}

/// degenerate additions for "any command tree": empty names, over-long names, several defaults, duplicates
fn degenerate(rng: &mut Rng, specs: &mut Vec<Spec>, next_h: &mut usize) {
    fn walk(rng: &mut Rng, s: &mut Spec) {
        if rng.chance(1, 6) {
            s.default = !s.default;
        }
        if rng.chance(1, 20) {
            s.name = match rng.usize(4) {
                0 => vec![],
                1 => b"ABCDEFGHIJKLMNOPQRSTUV".to_vec(),
                2 => b"1".to_vec(),
                _ => b"a_b".to_vec(),
            };
        }
        if let SpecKind::Branch(sub) = &mut s.kind {
            if rng.chance(1, 10) {
                sub.clear(); // branch without children
            }
            for c in sub.iter_mut() {
                walk(rng, c);
            }
        }
    }
    for s in specs.iter_mut() {
        walk(rng, s);
    }
    if rng.chance(1, 3) && !specs.is_empty() {
        let d = specs[rng.usize(specs.len())].clone();
        specs.push(d);
    }
    let _ = next_h;
}

fn hostile_scripts(rng: &mut Rng, nh: usize) -> Vec<Script> {
    (0..nh)
        .map(|i| {
            let np = rng.usize(5);
            let pulls = (0..np).map(|_| Pull { optional: rng.bool(), conv: *rng.pick(ALL_CONVS) }).collect();
            let ne = rng.usize(4);
            Script {
                id: i as u32,
                pulls,
                omnivore: rng.chance(1, 3),
                fail: if rng.chance(1, 10) { Some(Error::custom(5, b"fail")) } else { None },
                headers: (0..rng.usize(3)).map(|_| *rng.pick(RESP_HEADERS)).collect(),
                emit: (0..ne).map(|_| gen_val(rng)).collect(),
                no_query: rng.chance(1, 12),
                no_event: rng.chance(1, 12),
                tolerant: rng.chance(1, 4),
                fail_before_pulls: rng.bool(),
                meta_hint: rng.usize(4) as u8,
                finish_each: rng.chance(1, 5),
                fail_via_response: rng.chance(1, 4),
                skip_finish: false,
            }
        })
        .collect()
}

fn soup(rng: &mut Rng, n: usize) -> Vec<u8> {
    const FRAG: &[&[u8]] = &[
        b"A", b"*", b":", b"?", b";", b",", b" ", b"\n", b"1", b".", b"E", b"+", b"-", b"#", b"H", b"#H", b"#B", b"#Q", b"#0", b"#1", b"#2", b"#9", b"'", b"\"", b"(", b")", b"@", b"!", b"\xff", b"\x00",
        b"#15", b"#210", b"1e", b"1.5e-3", b"1!2", b"(@1!2,3:4)", b"(1,2:3)", b"'a''b'", b"MAX", b"MIN", b"DEF", b"ON", b"OFF", b"INF", b"NAN", b"V", b"HZ", b"DBM", b"ABCDEFGHIJKL", b"ABCDEFGHIJKLM",
        b"999999999999999999999", b"18446744073709551616", b"-9223372036854775809", b"0.5", b"-0.5", b"1e999", b"1e-999", b"#HFFFFFFFFFFFFFFFF", b"#HFFFFFFFFFFFFFFFFF", b"\t", b"\r", b"\x0c", b"_", b"/", b"%",
    ];
    let mut v = Vec::new();
    for _ in 0..n {
        let f: &[u8] = *rng.pick(FRAG);
        v.extend_from_slice(f);
    }
    v
}

fn long_input(rng: &mut Rng) -> Vec<u8> {
    let n = 1000 + rng.usize(64 * 1024 - 1000);
    let mut v = b"A ".to_vec();
    match rng.usize(7) {
        0 => v.extend(std::iter::repeat(b'9').take(n)),
        1 => {
            v.push(b'\'');
            v.extend((0..n).map(|_| b' ' + rng.usize(95) as u8));
        }
        2 => {
            let hdr = format!("#{}{}", n.to_string().len(), n);
            v.extend_from_slice(hdr.as_bytes());
            v.extend((0..n - rng.usize(3)).map(|_| rng.next() as u8));
        }
        3 => {
            v.clear();
            for _ in 0..n / 4 {
                v.extend_from_slice(b"A;:B");
            }
        }
        4 => {
            v.push(b'(');
            for _ in 0..n / 4 {
                v.extend_from_slice(b"1!2,");
            }
            v.push(b')');
        }
        5 => v.extend(std::iter::repeat(b'A').take(n)),
        _ => v.extend((0..n).map(|_| rng.next() as u8)),
    }
    v
}

/// direct drive of the public lexer/conversion/expression API on one input
fn direct_api(ctx: &mut Ctx, input: &[u8]) {
    for params in [false, true] {
        let mut t = if params { Tokenizer::new_params(input) } else { Tokenizer::new(input) };
        let mut n = 0usize;
        loop {
            let before = t.chars.as_slice().len();
            match t.next() {
                None => break,
                Some(Err(_)) => break, // iterating past an error is outside the property
                Some(Ok(tok)) => {
                    let after = t.chars.as_slice().len();
                    if after >= before {
                        ctx.violation("C01:token-consumed-no-input", jobj(&[("input", jbytes(input)), ("hex", jstr(&hex(input))), ("at", (input.len() - before).to_string())]));
                        break;
                    }
                    n += 1;
                    ctx.count("direct.tokens");
                    if tok.is_data() {
                        for c in ALL_CONVS {
                            bump(ctx, 1);
                            match apply_conv(*c, tok) {
                                Ok(()) => ctx.count("direct.conversion.ok"),
                                Err(e) => {
                                    ctx.count("direct.conversion.err");
                                    if is_internal(&e) {
                                        ctx.violation(&format!("C01:internal-parser-error-surfaced:conversion-{:?}", c), jobj(&[("token", jstr(&format!("{:?}", tok)))]));
                                    }
                                }
                            }
                        }
                    }
                }
            }
            if n > input.len() + 1 {
                ctx.violation("C01:more-tokens-than-input-bytes", jobj(&[("input", jbytes(input))]));
                break;
            }
        }
    }
    // the input as a list expression
    if let Some(l) = ChannelList::new(input) {
        let mut n = 0;
        for item in l {
            n += 1;
            match item {
                Err(_) => break,
                Ok(tok) => {
                    use scpi::parser::expression::channel_list::Token as CT;
                    let specs = match tok {
                        CT::ChannelSpec(a) => vec![a],
                        CT::ChannelRange(a, b) => vec![a, b],
                        _ => vec![],
                    };
                    for s in specs {
                        for (j, d) in s.into_iter().enumerate() {
                            if d.is_err() || j > input.len() {
                                break;
                            }
                        }
                        let _ = isize::try_from(s);
                        let _ = usize::try_from(s);
                        let _ = <(isize, isize)>::try_from(s);
                        let _ = <(usize, usize)>::try_from(s);
                        let _ = <(isize, isize, isize)>::try_from(s);
                        let _ = <(usize, usize, usize)>::try_from(s);
                        ctx.count("direct.channel-specs");
                    }
                }
            }
            if n > input.len() + 1 {
                ctx.violation("C01:channel-list-yields-more-items-than-bytes", jobj(&[("input", jbytes(input))]));
                break;
            }
        }
    }
    let mut n = 0;
    for item in NumericList::new(input) {
        n += 1;
        if item.is_err() {
            break;
        }
        ctx.count("direct.numeric-list-items");
        if n > input.len() + 1 {
            ctx.violation("C01:numeric-list-yields-more-items-than-bytes", jobj(&[("input", jbytes(input))]));
            break;
        }
    }
}

pub const LIST_SOUP: &[&[u8]] = &[b"@", b"1", b"!", b":", b",", b"-", b"+", b"'", b"\"", b"2", b" ", b"a", b".", b"e", b"99999999999999999999", b"\xff", b"(", b")"];

/// Well-formed messages of thousands of units that all execute (a download script sent as one message): returns normally
/// whatever the number of units - in particular the depth of the native stack does not grow with it.
fn many_units(cfg: &Cfg, rep: &mut Report) {
    if cfg.tiny || (!cfg.stages.is_empty() && !cfg.stages.iter().any(|s| s == "many-units")) {
        return;
    }
    run_cases(cfg, "many-units", cfg.n(1, 96, 960), rep, |rng, ctx| {
        bump(ctx, 1);
        let k = match rng.usize(7) {
            0 => 3_000 + rng.usize(2_000),
            1 => 14_000 + rng.usize(4_000),
            2 => 30_000 + rng.usize(10_000),
            3 => 65_530 + rng.usize(12),
            4 => 120_000 + rng.usize(20_000),
            _ => 500 + rng.usize(20_000),
        };
        let scripts = vec![Script { id: 0, omnivore: true, emit: vec![Val::U8(1)], ..Default::default() }, Script { id: 1, omnivore: true, emit: vec![Val::U8(2), Val::U8(3)], ..Default::default() }];
        let specs = vec![Spec::leaf(b"A", false, 0), Spec::leaf(b"B", false, 1)];
        let built: Built<Dev, Script> = Built::new(&specs, scripts);
        let mut msg: Vec<u8> = Vec::with_capacity(k * 5);
        let mut queries = 0usize;
        for i in 0..k {
            if i > 0 {
                msg.push(b';');
            }
            let u: &[u8] = *rng.pick(&[&b"A"[..], b"A?", b"B 1,2", b"B?", b":A", b":B? 5", b"a 'x'"]);
            if u.contains(&b'?') {
                queries += 1;
            }
            msg.extend_from_slice(u);
        }
        if rng.bool() {
            msg.push(b'\n');
        }
        ctx.nontrivial(hash_bytes(&msg));
        ctx.count(&format!("many-units.units.{}", if k < 5_000 { "<5000" } else if k < 21_000 { "5000-21000" } else if k < 60_000 { "30000-40000" } else if k < 70_000 { "~2^16" } else { ">=120000" }));
        let mut dev = Dev::new();
        let mut c = scpi::Context::default();
        let mut resp: Vec<u8> = Vec::new();
        let r = built.root().run(&msg, &mut dev, &mut c, &mut resp);
        let answers = if resp.is_empty() { 0 } else { resp.iter().filter(|b| **b == b';').count() + 1 };
        if r.is_err() || answers != queries {
            ctx.violation("C01:many-units:well-formed-message-fails-or-loses-units", jobj(&[("units", k.to_string()), ("queries", queries.to_string()), ("answers", answers.to_string()), ("result", jstr(&format!("{:?}", r.map_err(|e| e.get_code()))))]));
        }
        ctx.add("many-units.units-executed", k as u64);
    });
}

pub fn run(cfg: &Cfg, rep: &mut Report) {
    many_units(cfg, rep);
    // (0) hand-picked boundary inputs x every conversion kind as first parameter x formatter capacities
    let bi = boundary_inputs();
    run_cases(cfg, "boundary", bi.len() as u64, rep, |_rng, ctx| {
        let input = &bi[ctx.index as usize];
        ctx.nontrivial(hash_bytes(input));
        direct_api(ctx, input);
        for (ci, c) in ALL_CONVS.iter().enumerate() {
            if ctx.cfg.tiny && (ci + ctx.index as usize) % 4 != 0 {
                continue;
            }
            bump(ctx, 1);
            let built = single_conversion_tree(*c);
            let mut dev = Dev::new();
            let mut c0 = Context::default();
            let mut out: Vec<u8> = Vec::new();
            let r = built.root().run(input, &mut dev, &mut c0, &mut out);
            ctx.count("boundary.runs");
            check_result(ctx, "boundary", input, &r, "boundary list");
            for cap in [0usize, 1, 7, 24, 64] {
                if ctx.cfg.tiny && cap != 7 {
                    continue;
                }
                dev.clear();
                let r = run_cap(cap, built.root(), input, &mut dev, &mut c0).unwrap().result;
                check_result(ctx, "boundary", input, &r, "boundary list, fixed capacity");
            }
        }
        // degenerate "trees" the type allows: a leaf (plain or default) used as the root, a branch without children,
        // a default branch as root, run on an inner node
        {
            use scpi::tree::Node;
            let h = Script { id: 0, omnivore: true, emit: vec![Val::U8(1)], ..Default::default() };
            let leaf: Node<Dev> = Node::Leaf { name: b"A", default: false, handler: &h };
            let dleaf: Node<Dev> = Node::Leaf { name: b"", default: true, handler: &h };
            let empty: Node<Dev> = Node::Branch { name: b"", default: false, sub: &[] };
            let inner = [Node::Leaf { name: b"E", default: true, handler: &h }, Node::Branch { name: b"A", default: true, sub: &[] }];
            let dbranch: Node<Dev> = Node::Branch { name: b"A", default: true, sub: &inner };
            for (nm, n) in [("leaf-as-root", &leaf), ("default-leaf-as-root", &dleaf), ("branch-without-children", &empty), ("default-branch-as-root", &dbranch), ("inner-leaf", &inner[0])] {
                bump(ctx, 1);
                let mut dev = Dev::new();
                let mut c0 = Context::default();
                let mut out: Vec<u8> = Vec::new();
                let r = n.run(input, &mut dev, &mut c0, &mut out);
                ctx.count("boundary.degenerate-root.runs");
                check_result(ctx, "boundary", input, &r, nm);
            }
        }
        ctx.sample(|| jobj(&[("boundary_input", jbytes(input))]));
    });
    // (a) Node::run on generated trees x handler scripts x inputs
    let ntrees = cfg.n(8, 40_000, 1_000_000);
    let nin = cfg.n(12, 150, 400) as usize;
    run_cases(cfg, "run", ntrees, rep, |rng, ctx| {
        let unamb = rng.bool();
        let (mut specs, nh) = TreeGen::generate(rng, unamb);
        let rt = RTree::from_specs(&specs); // resolver view before degeneration (used to aim units at leaves)
        let mut nhh = nh;
        if !unamb {
            degenerate(rng, &mut specs, &mut nhh);
        }
        let scripts = hostile_scripts(rng, nh);
        let built: Built<Dev, Script> = Built::new(&specs, scripts);
        let mut dev = Dev::new();
        let mut c = Context::default();
        ctx.count(if unamb { "trees.unambiguous" } else { "trees.ambiguous-or-degenerate" });
        for _ in 0..nin {
            bump(ctx, 1);
            let class;
            let input: Vec<u8> = match rng.usize(12) {
                0 | 1 | 2 | 3 => {
                    // units that reach the handlers with data of every kind
                    class = "reaches-handlers";
                    let k = 1 + rng.usize(4);
                    let mut m = Vec::new();
                    let mut level = 0;
                    for u in 0..k {
                        let (g, _h, nl) = gen_resolving_unit(rng, &rt, level, u == 0);
                        level = nl;
                        if u > 0 {
                            m.push(b';');
                        }
                        m.extend_from_slice(&g.header());
                        let nd = rng.usize(5);
                        if nd > 0 {
                            m.push(b' ');
                            let data: Vec<GDatum> = (0..nd)
                                .map(|_| {
                                    let kd = any_kind(rng);
                                    if kd == crate::refm::lexer::DKind::Expr && rng.bool() {
                                        // list expressions for the list conversions
                                        let mut t = vec![b'('];
                                        if rng.bool() {
                                            t.push(b'@');
                                        }
                                        for _ in 0..rng.usize(8) {
                                            t.extend_from_slice(*rng.pick(LIST_SOUP));
                                        }
                                        t.retain(|c| !b"()'\"".contains(c) || *c == b'(' && false);
                                        t.insert(0, b'(');
                                        t.push(b')');
                                        GDatum { kind: kd, text: t }
                                    } else if rng.chance(1, 4) {
                                        GDatum { kind: kd, text: soup(rng, 1) }
                                    } else {
                                        gen_datum(rng, kd)
                                    }
                                })
                                .collect();
                            render_data(rng, &data, &mut m);
                        }
                    }
                    let e = *rng.pick(&ENDINGS);
                    render_ending(rng, e, &mut m);
                    m
                }
                4 => {
                    class = "generated-message";
                    gen_message(rng).0
                }
                5 | 6 => {
                    class = "mutated";
                    let (m, _) = gen_message(rng);
                    let (mut m2, _) = corrupt(rng, &m);
                    if rng.bool() {
                        m2 = corrupt(rng, &m2).0;
                    }
                    m2
                }
                7 => {
                    class = "prefix";
                    let (m, _) = gen_message(rng);
                    let cut = rng.usize(m.len() + 1);
                    m[..cut].to_vec()
                }
                8 | 9 => {
                    class = "fragment-soup";
                    let n = rng.usize(12);
                    soup(rng, n)
                }
                10 => {
                    class = "random-bytes";
                    let n = rng.usize(64);
                    (0..n).map(|_| match rng.usize(4) { 0 => 0u8, 1 => 0xff, 2 => 0x80 + rng.usize(128) as u8, _ => rng.next() as u8 }).collect()
                }
                _ => {
                    if ctx.cfg.tiny || !rng.chance(1, 6) {
                        class = "fragment-soup";
                        soup(rng, 20)
                    } else {
                        class = "long(up to 64 KiB)";
                        long_input(rng)
                    }
                }
            };
            ctx.count(&format!("input.{}", class));
            if class != "long(up to 64 KiB)" {
                ctx.nontrivial(hash_bytes(&input));
            }
            dev.clear();
            let use_cap = rng.chance(1, 4);
            let r = if use_cap {
                let cap = *rng.pick(CAPS);
                run_cap(cap, built.root(), &input, &mut dev, &mut c).unwrap().result
            } else {
                let mut out: Vec<u8> = Vec::new();
                built.root().run(&input, &mut dev, &mut c, &mut out)
            };
            if dev.log.contains(&Ev::PullErr(i16::MIN)) {
                ctx.violation("C01:parameter-iterator-does-not-terminate", jobj(&[("input", jbytes(&input))]));
            }
            let inv = dev.invocations().len();
            if inv > 0 {
                ctx.count("inputs.reaching-a-handler");
            }
            ctx.add("handler-invocations", inv as u64);
            if inv > input.len() + 1 {
                ctx.violation("C01:more-handler-invocations-than-input-bytes", jobj(&[("input", jbytes(&input))]));
            }
            check_result(ctx, "Node::run", &input, &r, class);
            if ctx.index % 997 == 0 && input.len() < 200 {
                ctx.sample(|| jobj(&[("class", jstr(class)), ("input", jbytes(&input)), ("result", jstr(&format!("{:?}", r.as_ref().err().map(|e| e.get_code()))))]));
            }
        }
    });
    // (b) direct API drive
    let n = cfg.n(60, 1_600_000, 32_000_000);
    run_cases(cfg, "direct", n, rep, |rng, ctx| {
        let input: Vec<u8> = match rng.usize(8) {
            0 => gen_message(rng).0,
            1 => {
                let (m, _) = gen_message(rng);
                corrupt(rng, &m).0
            }
            2 | 3 => {
                let n = rng.usize(10);
                soup(rng, n)
            }
            4 | 5 => {
                // list-expression soup
                let mut t = vec![];
                if rng.bool() {
                    t.push(b'@');
                }
                for _ in 0..rng.usize(10) {
                    t.extend_from_slice(*rng.pick(LIST_SOUP));
                }
                t
            }
            6 => {
                let kd = any_kind(rng);
                gen_datum(rng, kd).text
            }
            _ => {
                let n = rng.usize(40);
                (0..n).map(|_| rng.next() as u8).collect()
            }
        };
        bump(ctx, 1);
        ctx.nontrivial(hash_bytes(&input));
        direct_api(ctx, &input);
    });
    // (c) bounded-exhaustive sweep against a fixed tree whose handlers pull every conversion kind
    let maxlen: u32 = if cfg.tiny { 2 } else if cfg.quick() { 5 } else { 6 };
    let al = SWEEP_ALPHABET;
    let k = al.len() as u64;
    let chunks = k * k;
    let before = rep.counters.get("stage.sweep.truncated").copied();
    run_cases(cfg, "sweep", chunks, rep, |_rng, ctx| {
        let built = all_conversions_tree();
        let mut dev = Dev::new();
        let mut c = Context::default();
        let c0 = al[(ctx.index / k) as usize];
        let c1 = al[(ctx.index % k) as usize];
        let mut buf: Vec<u8> = Vec::new();
        let mut out: Vec<u8> = Vec::new();
        for len in 2..=maxlen {
            let rest = len - 2;
            let total = k.pow(rest);
            for mut x in 0..total {
                buf.clear();
                buf.push(c0);
                buf.push(c1);
                for _ in 0..rest {
                    buf.push(al[(x % k) as usize]);
                    x /= k;
                }
                bump(ctx, 1);
                dev.clear();
                out.clear();
                let r = built.root().run(&buf, &mut dev, &mut c, &mut out);
                if !dev.log.is_empty() {
                    ctx.count("sweep.reaching-a-handler");
                    ctx.nontrivial(hash_bytes(&buf));
                }
                if let Err(e) = &r {
                    if is_internal(e) {
                        ctx.violation("C01:internal-parser-error-surfaced:sweep", jobj(&[("input", jbytes(&buf))]));
                    }
                }
            }
        }
    });
    let complete = cfg.only.is_none() && cfg.shard.1 == 1 && rep.counters.get("stage.sweep.truncated").copied() == before;
    rep.exhaustive.insert(format!("all strings of length 2..={} over the {} class representatives against the all-conversions tree", maxlen, al.len()), complete);
}
