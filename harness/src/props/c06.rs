//! C06 — a handler is offered exactly its own unit's data elements; -109 / -108 on wrong arity.
use crate::fw::*;
use crate::gen::msg::*;
use crate::gen::scen::*;
use crate::gen::tree::*;
use crate::mon::dev::*;
use crate::mon::tree::*;
use crate::refm::lexer::*;
use crate::refm::resolver::*;
use scpi::Context;

pub fn run(cfg: &Cfg, rep: &mut Report) {
    let ntrees = cfg.n(6, 60_000, 1_200_000);
    let nmsg = cfg.n(8, 120, 300) as usize;
    run_cases(cfg, "arity", ntrees, rep, |rng, ctx| {
        let (specs, nh) = TreeGen::generate(rng, true);
        let arity: Vec<(usize, usize)> = (0..nh).map(|_| if rng.chance(1, 30) { (rng.usize(3), 300) } else { (rng.usize(5), rng.usize(5)) }).collect();
        // pull order: usually required first then optional, sometimes interleaved (optional pulls before required ones)
        let orders: Vec<Vec<bool>> = (0..nh)
            .map(|i| {
                let (m, o) = arity[i];
                let mut v = vec![false; m];
                v.extend(vec![true; o]);
                if rng.chance(1, 4) {
                    for k in (1..v.len()).rev() {
                        let j = rng.usize(k + 1);
                        v.swap(k, j);
                    }
                }
                v
            })
            .collect();
        let handlers: Vec<Script> = (0..nh).map(|i| Script { id: i as u32, pulls: orders[i].iter().map(|o| Pull { optional: *o, conv: Conv::Token }).collect(), ..Default::default() }).collect();
        // outcome of a handler with pull order `ord` on a unit with n elements: (offered, nones, missing-parameter?)
        let outcome = |ord: &Vec<bool>, n: usize| -> (usize, usize, bool) {
            let (mut k, mut nones) = (0usize, 0usize);
            for opt in ord {
                if k < n {
                    k += 1;
                } else if *opt {
                    nones += 1;
                } else {
                    return (k, nones, true);
                }
            }
            (k, nones, false)
        };
        let built: Built<Dev, Script> = Built::new(&specs, handlers);
        let rt = RTree::from_specs(&specs);
        let mut dev = Dev::new();
        let mut c = Context::default();
        for _ in 0..nmsg {
            bump(ctx, 1);
            let nunits = 1 + rng.usize(5);
            let mut msg: Vec<u8> = Vec::new();
            let mut level = 0;
            // plan: (handler, query, kinds)
            let mut plan: Vec<(usize, bool, Vec<DKind>)> = vec![];
            let mut gave_up = false;
            for u in 0..nunits {
                let (g, h, nl) = gen_resolving_unit(rng, &rt, level, u == 0);
                if h == usize::MAX {
                    gave_up = true;
                    break; // generator found nothing that resolves uniquely from here: end the message early
                }
                level = nl;
                if u > 0 {
                    ws0(rng, &mut msg);
                    msg.push(b';');
                    ws0(rng, &mut msg);
                }
                msg.extend_from_slice(&g.header());
                let (m, o) = arity[h];
                let n = match rng.usize(10) {
                    0 if m > 0 => rng.usize(m),             // too few
                    1 => m + o + 1 + rng.usize(2),          // too many
                    2 if o >= 300 && !ctx.cfg.tiny => 250 + rng.usize(50), // many parameters, all of them wanted
                    _ => m + rng.usize(o.min(6) + 1),       // fits
                };
                let mut data = vec![];
                for _ in 0..n {
                    let k = any_kind(rng);
                    data.push(gen_datum(rng, k));
                }
                if n > 0 {
                    ws1(rng, &mut msg);
                    render_data(rng, &data, &mut msg);
                }
                plan.push((h, g.query, data.iter().map(|d| d.kind).collect()));
            }
            if plan.is_empty() {
                ctx.count("skipped.no-resolving-unit");
                continue;
            }
            // a ';' may have been written before the generator gave up
            while gave_up && matches!(msg.last(), Some(b';') | Some(b' ') | Some(b'\t') | Some(b'\r') | Some(0x0c)) {
                msg.pop();
            }
            let ending = *rng.pick(&ENDINGS);
            render_ending(rng, ending, &mut msg);
            // reference decomposition (byte ranges)
            let acc = match lex_message(&msg) {
                Lex::Accept(a) => a,
                Lex::Unspecified(_) => {
                    ctx.count("skipped.unspecified");
                    continue;
                }
                Lex::Reject(r, at) => {
                    ctx.count("SELFCHECK-FAILED.reference-rejects-generated-message");
                    ctx.sample(|| jobj(&[("selfcheck_failed", jbytes(&msg)), ("reason", jstr(r)), ("at", at.to_string())]));
                    continue;
                }
            };
            if acc.units.len() != plan.len() || acc.units.iter().zip(plan.iter()).any(|(u, p)| u.data.iter().map(|d| d.kind).collect::<Vec<_>>() != p.2) {
                ctx.count("SELFCHECK-FAILED.reference-decomposition-differs-from-generator");
                continue;
            }
            // expected event log
            let base = msg.as_ptr() as usize;
            let mut expect_err: Option<i16> = None;
            let mut expect_units = 0usize;
            let mut h64 = 0u64;
            for (i, (h, _q, kinds)) in plan.iter().enumerate() {
                let (m, o) = arity[*h];
                let n = kinds.len();
                expect_units = i + 1;
                let pos = if plan.len() == 1 { "only" } else if i == 0 { "first" } else if i + 1 == plan.len() { "last" } else { "middle" };
                let (_, _, missing) = outcome(&orders[*h], n);
                let _ = m;
                if missing {
                    expect_err = Some(-109);
                    ctx.count(&format!("unit.too-few.{}", pos));
                    h64 = mix(h64, 1 + 16 * (n as u64) + 256 * (m as u64));
                    break;
                } else if n > m + o {
                    expect_err = Some(-108);
                    ctx.count(&format!("unit.too-many.{}", pos));
                    h64 = mix(h64, 2 + 16 * (n as u64) + 256 * ((m + o) as u64));
                    break;
                } else {
                    ctx.count(&format!("unit.fits.{}", pos));
                    h64 = mix(h64, 3 + 16 * (n as u64) + 256 * (m as u64) + 4096 * (o as u64));
                }
            }
            ctx.nontrivial(mix(h64, ending as u64));
            dev.clear();
            let mut resp: Vec<u8> = Vec::new();
            let r = built.root().run(&msg, &mut dev, &mut c, &mut resp);
            let detail = |dev: &Dev| {
                jobj(&[("message", jbytes(&msg)), ("hex", jstr(&hex(&msg))), ("arity(m required,o optional) per unit", jstr(&format!("{:?}", plan.iter().map(|p| (arity[p.0], p.2.len())).collect::<Vec<_>>()))), ("result", jstr(&format!("{:?}", r.as_ref().err().map(|e| e.get_code())))), ("log", jstr(&format!("{:?}", dev.log)))])
            };
            // walk the log
            let mut unit = 0usize;
            let mut k = 0usize;
            let mut nones = 0usize;
            let mut bad: Option<String> = None;
            for ev in &dev.log {
                match ev {
                    Ev::Invoke { h, query } => {
                        if unit >= expect_units {
                            bad = Some(if expect_err == Some(-108) { "next-unit-invoked-after-leftover-data".into() } else { "unit-invoked-after-failed-unit".into() });
                            break;
                        }
                        if *h as usize != plan[unit].0 || *query != plan[unit].1 {
                            bad = Some("wrong-handler-or-form".into());
                            break;
                        }
                        k = 0;
                        nones = 0;
                    }
                    Ev::Offer { kind, a: pa, b: pb, value } => {
                        let u = &acc.units[unit];
                        // never outside the unit's own span
                        let in_unit = |p: &(usize, usize)| p.1 == 0 || (p.0 >= base + u.span.0 && p.0 + p.1 <= base + u.span.1);
                        if *kind != DKind::NonDec && (!in_unit(pa) || !in_unit(pb)) {
                            bad = Some("offered-token-outside-own-unit".into());
                            break;
                        }
                        let ok = match u.data.get(k) {
                            None => false,
                            Some(d) => {
                                d.kind == *kind
                                    && match kind {
                                        DKind::NonDec => d.value == *value,
                                        DKind::DecSuffix => pa.0 == base + d.a.0 && pa.1 == d.a.1 - d.a.0 && pb.0 == base + d.b.0 && pb.1 == d.b.1 - d.b.0,
                                        _ => pa.0 == base + d.a.0 && pa.1 == d.a.1 - d.a.0,
                                    }
                            }
                        };
                        if !ok {
                            bad = Some(format!("offered-token-is-not-element-{}-of-its-unit", if k < u.data.len() { "k" } else { "beyond-n" }));
                            break;
                        }
                        k += 1;
                    }
                    Ev::PullNone => nones += 1,
                    Ev::PullErr(code) => {
                        let n = plan[unit].2.len();
                        let (_, _, missing) = outcome(&orders[plan[unit].0], n);
                        if !(missing && *code == -109 && k == n) {
                            bad = Some(format!("pull-error-{}-unexpected", code));
                            break;
                        }
                    }
                    Ev::Return { .. } => {
                        let n = plan[unit].2.len();
                        let (want_k, want_nones, _) = outcome(&orders[plan[unit].0], n);
                        if k != want_k {
                            bad = Some("handler-offered-wrong-number-of-elements".into());
                            break;
                        }
                        if nones != want_nones {
                            bad = Some("optional-pull-beyond-data-did-not-yield-none".into());
                            break;
                        }
                        unit += 1;
                    }
                }
            }
            if bad.is_none() && unit != expect_units {
                bad = Some("unit-not-executed".into());
            }
            if let Some(b) = bad {
                ctx.violation(&format!("C06:{}", b), detail(&dev));
                continue;
            }
            match (r.as_ref().err().map(|e| e.get_code()), expect_err) {
                (None, None) => ctx.count("messages.ok"),
                (Some(a), Some(b)) if a == b => ctx.count(&format!("messages.err{}", a)),
                (Some(a), Some(b)) => ctx.violation(&format!("C06:expected{}-got{}", b, a), detail(&dev)),
                (None, Some(b)) => ctx.violation(&format!("C06:expected{}-got-ok", b), detail(&dev)),
                (Some(a), None) => ctx.violation(&format!("C06:well-formed-fitting-message-failed:{}", a), detail(&dev)),
            }
            ctx.add("offers.checked", dev.log.iter().filter(|e| matches!(e, Ev::Offer { .. })).count() as u64);
            if ctx.index % 499 == 0 {
                ctx.sample(|| jobj(&[("message", jbytes(&msg)), ("(required,optional),sent per unit", jstr(&format!("{:?}", plan.iter().map(|p| (arity[p.0], p.2.len())).collect::<Vec<_>>()))), ("expected_error", jstr(&format!("{:?}", expect_err)))]));
            }
        }
    });
}
