//! C06 — a handler is offered exactly its own unit's data elements; -109 / -108 on wrong arity.
use crate::fw::*;
use crate::gen::msg::*;
use crate::gen::scen::*;
use crate::gen::tree::*;
use crate::mon::dev::*;
use crate::mon::tree::*;
use crate::refm::lexer::*;
use crate::refm::resolver::*;
use scpi::Context;

pub fn run(cfg: &Cfg, rep: &mut Report) {
    let ntrees = cfg.n(6, 60_000, 1_200_000);
    let nmsg = cfg.n(8, 120, 300) as usize;
    run_cases(cfg, "arity", ntrees, rep, |rng, ctx| {
        let (specs, nh) = TreeGen::generate(rng, true);
        let arity: Vec<(usize, usize)> = (0..nh).map(|_| if rng.chance(1, 30) { (rng.usize(3), 300) } else { (rng.usize(5), rng.usize(5)) }).collect();
        // pull order: usually required first then optional, sometimes interleaved (optional pulls before required ones)
        let orders: Vec<Vec<bool>> = (0..nh)
            .map(|i| {
                let (m, o) = arity[i];
                let mut v = vec![false; m];
                v.extend(vec![true; o]);
                if rng.chance(1, 4) {
                    for k in (1..v.len()).rev() {
                        let j = rng.usize(k + 1);
                        v.swap(k, j);
                    }
                }
                v
            })
            .collect();
        let handlers: Vec<Script> = (0..nh).map(|i| Script { id: i as u32, pulls: orders[i].iter().map(|o| Pull { optional: *o, conv: Conv::Token }).collect(), ..Default::default() }).collect();
        // outcome of a handler with pull order `ord` on a unit with n elements: (offered, nones, missing-parameter?)
        let outcome = |ord: &Vec<bool>, n: usize| -> (usize, usize, bool) {
            let (mut k, mut nones) = (0usize, 0usize);
            for opt in ord {
                if k < n {
                    k += 1;
                } else if *opt {
                    nones += 1;
                } else {
                    return (k, nones, true);
                }
            }
            (k, nones, false)
        };
        let built: Built<Dev, Script> = Built::new(&specs, handlers);
        let rt = RTree::from_specs(&specs);
        let mut dev = Dev::new();
        let mut c = Context::default();
        for _ in 0..nmsg {
            bump(ctx, 1);
            let nunits = 1 + rng.usize(5);
            let mut msg: Vec<u8> = Vec::new();
            let mut level = 0;
            // plan: (handler, query, kinds)
            let mut plan: Vec<(usize, bool, Vec<DKind>)> = vec![];
            let mut gave_up = false;
            let mut indefinite_last = false;
            for u in 0..nunits {
                let (g, h, nl) = gen_resolving_unit(rng, &rt, level, u == 0);
                if h == usize::MAX {
                    gave_up = true;
                    break; // generator found nothing that resolves uniquely from here: end the message early
                }
                level = nl;
                if u > 0 {
                    ws0(rng, &mut msg);
                    msg.push(b';');
                    ws0(rng, &mut msg);
                }
                msg.extend_from_slice(&g.header());
                let (m, o) = arity[h];
                let n = match rng.usize(10) {
                    0 if m > 0 => rng.usize(m),             // too few
                    1 => m + o + 1 + rng.usize(2),          // too many
                    2 if o >= 300 && !ctx.cfg.tiny => 250 + rng.usize(50), // many parameters, all of them wanted
                    _ => m + rng.usize(o.min(6) + 1),       // fits
                };
                let mut data = vec![];
                for _ in 0..n {
                    let k = any_kind(rng);
                    data.push(gen_datum(rng, k));
                }
                // an indefinite-length block as the very last element of the message (its payload is everything up to the
                // terminating NL, whatever bytes that is - CR, NL, quotes, separators)
                if n > 0 && u + 1 == nunits && rng.chance(1, 8) {
                    let len = rng.usize(12);
                    let mut t = b"#0".to_vec();
                    for _ in 0..len {
                        t.push(*rng.pick(b";,\n\r'\"ab 1#()\x00\xff\r"));
                    }
                    let last = data.len() - 1;
                    data[last] = GDatum { kind: DKind::Block, text: t };
                    indefinite_last = true;
                }
                if n > 0 {
                    ws1(rng, &mut msg);
                    render_data(rng, &data, &mut msg);
                }
                plan.push((h, g.query, data.iter().map(|d| d.kind).collect()));
            }
            if plan.is_empty() {
                ctx.count("skipped.no-resolving-unit");
                continue;
            }
            // a ';' may have been written before the generator gave up
            while gave_up && matches!(msg.last(), Some(b';') | Some(b' ') | Some(b'\t') | Some(b'\r') | Some(0x0c)) {
                msg.pop();
            }
            let mut ending = *rng.pick(&ENDINGS);
            if indefinite_last && !gave_up {
                // the NL that ends the block ends the message
                msg.push(b'\n');
                ending = Ending::Nl;
                ctx.count("messages.ending-in-an-indefinite-block");
            } else {
                render_ending(rng, ending, &mut msg);
            }
            // reference decomposition (byte ranges)
            let acc = match lex_message(&msg) {
                Lex::Accept(a) => a,
                Lex::Unspecified(_) => {
                    ctx.count("skipped.unspecified");
                    continue;
                }
                Lex::Reject(r, at) => {
                    ctx.count("SELFCHECK-FAILED.reference-rejects-generated-message");
                    ctx.sample(|| jobj(&[("selfcheck_failed", jbytes(&msg)), ("reason", jstr(r)), ("at", at.to_string())]));
                    continue;
                }
            };
            if acc.units.len() != plan.len() || acc.units.iter().zip(plan.iter()).any(|(u, p)| u.data.iter().map(|d| d.kind).collect::<Vec<_>>() != p.2) {
                ctx.count("SELFCHECK-FAILED.reference-decomposition-differs-from-generator");
                continue;
            }
            // expected event log
            let base = msg.as_ptr() as usize;
            let mut expect_err: Option<i16> = None;
            let mut expect_units = 0usize;
            let mut h64 = 0u64;
            for (i, (h, _q, kinds)) in plan.iter().enumerate() {
                let (m, o) = arity[*h];
                let n = kinds.len();
                expect_units = i + 1;
                let pos = if plan.len() == 1 { "only" } else if i == 0 { "first" } else if i + 1 == plan.len() { "last" } else { "middle" };
                let (_, _, missing) = outcome(&orders[*h], n);
                let _ = m;
                if missing {
                    expect_err = Some(-109);
                    ctx.count(&format!("unit.too-few.{}", pos));
                    h64 = mix(h64, 1 + 16 * (n as u64) + 256 * (m as u64));
                    break;
                } else if n > m + o {
                    expect_err = Some(-108);
                    ctx.count(&format!("unit.too-many.{}", pos));
                    h64 = mix(h64, 2 + 16 * (n as u64) + 256 * ((m + o) as u64));
                    break;
                } else {
                    ctx.count(&format!("unit.fits.{}", pos));
                    h64 = mix(h64, 3 + 16 * (n as u64) + 256 * (m as u64) + 4096 * (o as u64));
                }
            }
            ctx.nontrivial(mix(h64, ending as u64));
            dev.clear();
            let mut resp: Vec<u8> = Vec::new();
            c.mav = rng.chance(1, 3);
            let r = built.root().run(&msg, &mut dev, &mut c, &mut resp);
            let detail = |dev: &Dev| {
                jobj(&[("message", jbytes(&msg)), ("hex", jstr(&hex(&msg))), ("arity(m required,o optional) per unit", jstr(&format!("{:?}", plan.iter().map(|p| (arity[p.0], p.2.len())).collect::<Vec<_>>()))), ("result", jstr(&format!("{:?}", r.as_ref().err().map(|e| e.get_code())))), ("log", jstr(&format!("{:?}", dev.log)))])
            };
            // walk the log
            let mut unit = 0usize;
            let mut k = 0usize;
            let mut nones = 0usize;
            let mut bad: Option<String> = None;
            for ev in &dev.log {
                match ev {
                    Ev::Invoke { h, query } => {
                        if unit >= expect_units {
                            bad = Some(if expect_err == Some(-108) { "next-unit-invoked-after-leftover-data".into() } else { "unit-invoked-after-failed-unit".into() });
                            break;
                        }
                        if *h as usize != plan[unit].0 || *query != plan[unit].1 {
                            bad = Some("wrong-handler-or-form".into());
                            break;
                        }
                        k = 0;
                        nones = 0;
                    }
                    Ev::Offer { kind, a: pa, b: pb, value } => {
                        let u = &acc.units[unit];
                        // never outside the unit's own span
                        let in_unit = |p: &(usize, usize)| p.1 == 0 || (p.0 >= base + u.span.0 && p.0 + p.1 <= base + u.span.1);
                        if *kind != DKind::NonDec && (!in_unit(pa) || !in_unit(pb)) {
                            bad = Some("offered-token-outside-own-unit".into());
                            break;
                        }
                        let ok = match u.data.get(k) {
                            None => false,
                            Some(d) => {
                                d.kind == *kind
                                    && match kind {
                                        DKind::NonDec => d.value == *value,
                                        DKind::DecSuffix => pa.0 == base + d.a.0 && pa.1 == d.a.1 - d.a.0 && pb.0 == base + d.b.0 && pb.1 == d.b.1 - d.b.0,
                                        _ => pa.0 == base + d.a.0 && pa.1 == d.a.1 - d.a.0,
                                    }
                            }
                        };
                        if !ok {
                            bad = Some(format!("offered-token-is-not-element-{}-of-its-unit", if k < u.data.len() { "k" } else { "beyond-n" }));
                            break;
                        }
                        k += 1;
                    }
                    Ev::PullNone => nones += 1,
                    Ev::PullErr(code) => {
                        let n = plan[unit].2.len();
                        let (_, _, missing) = outcome(&orders[plan[unit].0], n);
                        if !(missing && *code == -109 && k == n) {
                            bad = Some(format!("pull-error-{}-unexpected", code));
                            break;
                        }
                    }
                    Ev::Return { .. } => {
                        let n = plan[unit].2.len();
                        let (want_k, want_nones, _) = outcome(&orders[plan[unit].0], n);
                        if k != want_k {
                            bad = Some("handler-offered-wrong-number-of-elements".into());
                            break;
                        }
                        if nones != want_nones {
                            bad = Some("optional-pull-beyond-data-did-not-yield-none".into());
                            break;
                        }
                        unit += 1;
                    }
                }
            }
            if bad.is_none() && unit != expect_units {
                bad = Some("unit-not-executed".into());
            }
            if let Some(b) = bad {
                ctx.violation(&format!("C06:{}", b), detail(&dev));
                continue;
            }
            match (r.as_ref().err().map(|e| e.get_code()), expect_err) {
                (None, None) => ctx.count("messages.ok"),
                (Some(a), Some(b)) if a == b => ctx.count(&format!("messages.err{}", a)),
                (Some(a), Some(b)) => ctx.violation(&format!("C06:expected{}-got{}", b, a), detail(&dev)),
                (None, Some(b)) => ctx.violation(&format!("C06:expected{}-got-ok", b), detail(&dev)),
                (Some(a), None) => ctx.violation(&format!("C06:well-formed-fitting-message-failed:{}", a), detail(&dev)),
            }
            ctx.add("offers.checked", dev.log.iter().filter(|e| matches!(e, Ev::Offer { .. })).count() as u64);
            if ctx.index % 499 == 0 {
                ctx.sample(|| jobj(&[("message", jbytes(&msg)), ("(required,optional),sent per unit", jstr(&format!("{:?}", plan.iter().map(|p| (arity[p.0], p.2.len())).collect::<Vec<_>>()))), ("expected_error", jstr(&format!("{:?}", expect_err)))]));
            }
        }
    });
    run_typed(cfg, rep);
}

// ---- typed parameter API ------------------------------------------------------------------------
//
// The `arity` stage observes raw tokens (`next_token` / `next_optional_token`). Handlers in the field use
// the typed calls `Parameters::next_data::<T>()` / `next_optional_data::<T>()`; this stage drives those,
// on a tree built with the library's `Node::root/leaf/branch/default_*` constructors, with element types
// whose converted value identifies the element (numbers by value, strings/blocks/characters by payload).

#[derive(Clone, Copy, Debug, PartialEq, Eq)]
enum TK {
    I64,
    F64,
    Bytes,
    Arb,
    Chr,
}

#[derive(Clone, Debug, PartialEq)]
enum TV {
    I64(i64),
    F64(u64),
    Bytes(Vec<u8>),
    Absent,
    Err(i16),
    /// (expectations only) some value / some conversion error: the element was offered, what the conversion makes of
    /// an element of another type is the conversion's business
    AnyOk,
    AnyErr,
}

fn tv_match(got: &TV, want: &TV) -> bool {
    match (got, want) {
        (TV::I64(_) | TV::F64(_) | TV::Bytes(_), TV::AnyOk) => true,
        (TV::Err(c), TV::AnyErr) => *c != -109 && *c != -108,
        (g, w) => g == w,
    }
}

#[derive(Default)]
struct TDev {
    /// what the typed handler obtained, in order
    got: Vec<TV>,
    /// data seen by the follower command `B`
    follower: Vec<Vec<i64>>,
    hook: Vec<i16>,
}

impl scpi::Device for TDev {
    fn handle_error(&mut self, err: scpi::error::Error) {
        self.hook.push(err.get_code());
    }
}

struct TypedCmd {
    pulls: Vec<(bool, TK)>,
    /// a handler that does not give up at the first -109: asks again this many times and then either returns the
    /// error or carries on with a default (returns Ok)
    persist: Option<(usize, bool)>,
    /// a handler that notes a failed conversion (wrong element type for what it asked) and goes on to its next parameter
    forgiving: bool,
}

impl TypedCmd {
    fn go(&self, dev: &mut TDev, params: &mut scpi::parser::parameters::Parameters) -> scpi::error::Result<()> {
        use scpi::parser::format::{Arbitrary, Character};
        macro_rules! pull {
            ($opt:expr, $t:ty, $wrap:expr) => {{
                if $opt {
                    match params.next_optional_data::<$t>() {
                        Ok(Some(v)) => dev.got.push($wrap(v)),
                        Ok(None) => dev.got.push(TV::Absent),
                        Err(e) => {
                            dev.got.push(TV::Err(e.get_code()));
                            if self.forgiving && e.get_code() != -109 {
                                continue;
                            }
                            return Err(e);
                        }
                    }
                } else {
                    match params.next_data::<$t>() {
                        Ok(v) => dev.got.push($wrap(v)),
                        Err(e) => {
                            dev.got.push(TV::Err(e.get_code()));
                            if self.forgiving && e.get_code() != -109 {
                                continue;
                            }
                            if let (Some((again, swallow)), -109) = (self.persist, e.get_code()) {
                                for _ in 0..again {
                                    match params.next_data::<$t>() {
                                        Ok(v) => dev.got.push($wrap(v)),
                                        Err(e) => dev.got.push(TV::Err(e.get_code())),
                                    }
                                }
                                if swallow {
                                    // carries on with a default, and looks once more for an optional trailing parameter:
                                    // there is none in this unit (never an error, never an element of the next unit)
                                    match params.next_optional_data::<i64>() {
                                        Ok(Some(v)) => dev.got.push(TV::I64(v)),
                                        Ok(None) => dev.got.push(TV::Absent),
                                        Err(e) => dev.got.push(TV::Err(e.get_code())),
                                    }
                                    return Ok(());
                                }
                            }
                            return Err(e);
                        }
                    }
                }
            }};
        }
        for (opt, k) in &self.pulls {
            match k {
                TK::I64 => pull!(*opt, i64, |v: i64| TV::I64(v)),
                TK::F64 => pull!(*opt, f64, |v: f64| TV::F64(v.to_bits())),
                TK::Bytes => pull!(*opt, &[u8], |v: &[u8]| TV::Bytes(v.to_vec())),
                TK::Arb => pull!(*opt, Arbitrary, |v: Arbitrary| TV::Bytes(v.0.to_vec())),
                TK::Chr => pull!(*opt, Character, |v: Character| TV::Bytes(v.0.to_vec())),
            }
        }
        Ok(())
    }
}

impl scpi::tree::prelude::Command<TDev> for TypedCmd {
    fn event(&self, dev: &mut TDev, _c: &mut Context, mut params: scpi::parser::parameters::Parameters) -> scpi::error::Result<()> {
        self.go(dev, &mut params)
    }
    fn query(&self, dev: &mut TDev, _c: &mut Context, mut params: scpi::parser::parameters::Parameters, mut resp: scpi::parser::response::ResponseUnit) -> scpi::error::Result<()> {
        self.go(dev, &mut params)?;
        resp.data(1u8).finish()
    }
}

struct Follower;
impl scpi::tree::prelude::Command<TDev> for Follower {
    fn event(&self, dev: &mut TDev, _c: &mut Context, mut params: scpi::parser::parameters::Parameters) -> scpi::error::Result<()> {
        let mut v = vec![];
        while let Some(x) = params.next_optional_data::<i64>()? {
            v.push(x);
        }
        dev.follower.push(v);
        Ok(())
    }
}

pub fn run_typed(cfg: &Cfg, rep: &mut Report) {
    use scpi::tree::Node;
    let n = cfg.n(60, 300_000, 12_000_000);
    run_cases(cfg, "typed-api", n, rep, |rng, ctx| {
        bump(ctx, 1);
        let np = rng.usize(6);
        let pulls: Vec<(bool, TK)> = (0..np).map(|_| (rng.chance(2, 5), *rng.pick(&[TK::I64, TK::F64, TK::Bytes, TK::Arb, TK::Chr]))).collect();
        let persist = if rng.chance(1, 4) { Some((1 + rng.usize(3), rng.bool())) } else { None };
        // now and then the data sent is of another type than the handler asks for, and the handler carries on
        let forgiving = rng.chance(1, 4);
        let cmd = TypedCmd { pulls: pulls.clone(), persist, forgiving };
        let fol = Follower;
        // A[:SUB] (default leaf inside a branch), TYPed (plain leaf), B (follower): all through the constructors
        let sub = [Node::default_leaf(b"SUB", &cmd), Node::leaf(b"OTHer", &fol)];
        let dsub = [Node::leaf(b"DEEP", &cmd)];
        let children = [Node::branch(b"A", &sub), Node::leaf(b"TYPed", &cmd), Node::leaf(b"B", &fol), Node::default_branch(b"OPTional", &dsub)];
        let root = Node::root(&children);
        // number of elements sent: around the number of pulls
        let nsent = match rng.usize(4) {
            0 => np,
            1 => np + 1 + rng.usize(2),
            _ => rng.usize(np + 1),
        };
        let mut msg: Vec<u8> = Vec::new();
        let query = rng.chance(1, 3);
        let (hdr, hdr_follow): (&[u8], &[u8]) = *rng.pick(&[(&b"A"[..], &b":B"[..]), (b"A:SUB", b":B"), (b"a:sub", b"OTH"), (b"TYP", b"B"), (b"typed", b"b"), (b"DEEP", b":b"), (b"OPT:DEEP", b":B"), (b":A", b"a:oth")]);
        msg.extend_from_slice(hdr);
        if query {
            msg.push(b'?');
        }
        let mut want: Vec<TV> = vec![];
        for i in 0..nsent {
            msg.extend_from_slice(if i == 0 { b" " } else { *rng.pick(&[&b","[..], b" ,", b", ", b" , "]) });
            let kind = if i < np && !(forgiving && rng.bool()) { pulls[i].1 } else if i < np { *rng.pick(&[TK::I64, TK::F64, TK::Bytes, TK::Arb, TK::Chr]) } else { *rng.pick(&[TK::I64, TK::Bytes, TK::Chr]) };
            let val = match kind {
                TK::I64 => {
                    let v = rng.range(-100_000, 100_000);
                    msg.extend_from_slice(format!("{}", v).as_bytes());
                    TV::I64(v)
                }
                TK::F64 => {
                    let v = rng.range(-4000, 4000) as f64 / 8.0;
                    msg.extend_from_slice(format!("{:?}", v).as_bytes());
                    TV::F64(v.to_bits())
                }
                TK::Bytes => {
                    let q = if rng.bool() { b'"' } else { b'\'' };
                    let s: Vec<u8> = (0..rng.usize(9)).map(|_| *rng.pick(b"ab;,: ?#1\n")).collect();
                    msg.push(q);
                    msg.extend_from_slice(&s);
                    msg.push(q);
                    TV::Bytes(s)
                }
                TK::Arb => {
                    let s: Vec<u8> = (0..rng.usize(10)).map(|_| *rng.pick(b";,\n'\"#x\x00\xff")).collect();
                    msg.extend_from_slice(format!("#1{}", s.len()).as_bytes());
                    msg.extend_from_slice(&s);
                    TV::Bytes(s)
                }
                TK::Chr => {
                    // ordinary words and every word that is a keyword for some parameter type: to a handler asking
                    // for character data they are all just elements of its unit
                    let s: &[u8] = *rng.pick(&[&b"ABC"[..], b"x", b"Z9_y", b"MAXimum", b"B", b"DEF", b"DEFault", b"default", b"MIN", b"max", b"UP", b"DOWN", b"ON", b"OFF", b"INF", b"NINF", b"NAN", b"ONCE", b"AUTO"]);
                    msg.extend_from_slice(s);
                    TV::Bytes(s.to_vec())
                }
            };
            if i < np {
                // what asking for `pulls[i]` makes of this element
                let asked = pulls[i].1;
                want.push(if asked == kind {
                    val
                } else {
                    ctx.count("typed.element-of-another-type-than-asked");
                    match (asked, kind, &val) {
                        (TK::F64, TK::I64, TV::I64(v)) => TV::F64((*v as f64).to_bits()),
                        (TK::I64, TK::F64, _) => TV::AnyOk,
                        // character data may be a keyword of the numeric type (MAX, MIN, INF ...) or not
                        (TK::I64 | TK::F64, TK::Chr, TV::Bytes(w)) => {
                            let u = w.to_ascii_uppercase();
                            let kw: &[&[u8]] = if asked == TK::I64 { &[b"MAX", b"MAXIMUM", b"MIN"] } else { &[b"MAX", b"MAXIMUM", b"MIN", b"INF", b"NINF", b"NAN"] };
                            if kw.contains(&&u[..]) { TV::AnyOk } else { TV::AnyErr }
                        }
                        _ => TV::AnyErr,
                    }
                });
            }
        }
        // pulls beyond the data sent
        let mut expect_err: Option<i16> = None;
        for i in nsent..np {
            if pulls[i].0 {
                want.push(TV::Absent);
            } else {
                want.push(TV::Err(-109));
                expect_err = Some(-109);
                if let Some((again, swallow)) = persist {
                    // asking again never produces anything but -109 (in particular no element of the next unit);
                    // a handler that then carries on has completed its unit
                    for _ in 0..again {
                        want.push(TV::Err(-109));
                    }
                    if swallow {
                        expect_err = None;
                        want.push(TV::Absent);
                    }
                    ctx.count("typed.persistent-handler");
                }
                break;
            }
        }
        if expect_err.is_none() && nsent > np {
            expect_err = Some(-108);
        }
        // the unit's data on its own, for the stand-alone parameter entry point below
        let data_region: Vec<u8> = {
            let start = hdr.len() + query as usize;
            msg[start..].iter().copied().skip_while(|c| *c == b' ').collect()
        };
        // a following unit with its own data
        let fdata: Vec<i64> = (0..rng.usize(3)).map(|_| rng.range(-99, 99)).collect();
        msg.extend_from_slice(*rng.pick(&[&b";"[..], b" ;", b"; "]));
        msg.extend_from_slice(hdr_follow);
        for (i, d) in fdata.iter().enumerate() {
            msg.extend_from_slice(if i == 0 { b" " } else { b"," });
            msg.extend_from_slice(format!("{}", d).as_bytes());
        }
        if rng.bool() {
            msg.push(b'\n');
        }
        ctx.nontrivial(hash_bytes(&msg) ^ hash_str(&format!("{:?}", pulls)));
        let mut dev = TDev::default();
        let mut c = Context::default();
        let mut out: Vec<u8> = Vec::new();
        let r = root.run(&msg, &mut dev, &mut c, &mut out);
        ctx.add("typed.pulls-observed", dev.got.len() as u64);
        let detail = || jobj(&[("message", jbytes(&msg)), ("pulls(optional,type)", jstr(&format!("{:?}", pulls))), ("expected_values", jstr(&format!("{:?}", want))), ("observed_values", jstr(&format!("{:?}", dev.got))), ("follower_saw", jstr(&format!("{:?}", dev.follower))), ("result", jstr(&format!("{:?}", r.as_ref().map_err(|e| e.get_code())))), ("hook", jstr(&format!("{:?}", dev.hook)))]);
        // the same requests against the same data through `Parameters::with` on a parameter tokenizer of the caller's own
        // (`Tokenizer::new_params`): a handler obtains the same values, absences and errors
        {
            use scpi::parser::tokenizer::Tokenizer;
            let mut toks = Tokenizer::new_params(&data_region).peekable();
            let mut d2 = TDev::default();
            let mut params = scpi::parser::parameters::Parameters::with(&mut toks);
            let _ = cmd.go(&mut d2, &mut params);
            ctx.count("typed.stand-alone-parameters-compared");
            if d2.got.len() != want.len() || !d2.got.iter().zip(want.iter()).all(|(g, w)| tv_match(g, w)) {
                ctx.violation("C06:typed-api:stand-alone-Parameters-give-different-values", jobj(&[("data", jbytes(&data_region)), ("pulls(optional,type)", jstr(&format!("{:?}", pulls))), ("expected_values", jstr(&format!("{:?}", want))), ("observed_values", jstr(&format!("{:?}", d2.got)))]));
                return;
            }
        }
        if dev.got.len() != want.len() || !dev.got.iter().zip(want.iter()).all(|(g, w)| tv_match(g, w)) {
            let sig = if dev.got.len() == want.len() && dev.got.iter().zip(want.iter()).any(|(g, w)| matches!((g, w), (TV::Absent, TV::Err(_)) | (TV::Err(_), TV::Absent) | (TV::Absent, _) | (_, TV::Absent))) { "presence" } else { "values" };
            ctx.violation(&format!("C06:typed-api:handler-obtained-different-{}", sig), detail());
            return;
        }
        match (r.as_ref().err().map(|e| e.get_code()), expect_err) {
            (None, None) => {
                ctx.count("typed.messages.ok");
                if dev.follower != vec![fdata.clone()] {
                    ctx.violation("C06:typed-api:following-unit-saw-different-data", detail());
                }
                if !dev.hook.is_empty() {
                    ctx.violation("C06:typed-api:hook-called-on-success", detail());
                }
            }
            (Some(a), Some(b)) if a == b => {
                ctx.count(&format!("typed.messages.err{}", a));
                if !dev.follower.is_empty() {
                    ctx.violation("C06:typed-api:next-unit-started-after-arity-error", detail());
                }
                if dev.hook != vec![a] {
                    ctx.violation("C06:typed-api:error-not-reported-once", detail());
                }
            }
            (got, exp) => ctx.violation(&format!("C06:typed-api:expected{:?}-got{:?}", exp, got), detail()),
        }
    });
}
