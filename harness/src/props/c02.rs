//! C02 — compound headers resolve to exactly the SCPI-designated handler; -113 otherwise.
use crate::fw::*;
use crate::gen::msg::{ws0, ws1};
use crate::gen::scen::*;
use crate::gen::tree::*;
use crate::mon::dev::*;
use crate::mon::tree::*;
use crate::refm::resolver::*;
use scpi::Context;

pub fn run(cfg: &Cfg, rep: &mut Report) {
    let ntrees = cfg.n(6, 24_000, 480_000);
    let nhist = cfg.n(10, 150, 400) as usize;
    run_cases(cfg, "trees", ntrees, rep, |rng, ctx| {
        let (specs, nh) = TreeGen::generate(rng, true);
        // some commands define only one form (the other one falls to the library's default stub: -113, no handler code runs)
        let handlers: Vec<Script> = (0..nh)
            .map(|i| {
                let f = rng.usize(12);
                Script { id: i as u32, omnivore: true, no_query: f == 0, no_event: f == 1, meta_hint: if rng.chance(1, 3) { rng.usize(4) as u8 } else { 0 }, ..Default::default() }
            })
            .collect();
        let forms: Vec<(bool, bool)> = handlers.iter().map(|h| (h.no_event, h.no_query)).collect();
        let built: Built<Dev, Script> = Built::new(&specs, handlers);
        let root = built.root();
        let rt = RTree::from_specs(&specs);
        let mut tree_desc = String::new();
        for s in &specs {
            s.describe(&mut tree_desc, 0);
        }
        let shape = hash_str(&tree_desc);
        ctx.count(&format!("trees.leaves.{}", if rt.leaves.len() > 20 { ">20".to_string() } else { format!("{:02}", rt.leaves.len()) }));
        drive(rng, ctx, root, &rt, &forms, &tree_desc, shape, nhist);
    });
    // The same oracle on a tree written with the library's own `Root!` / `Branch!` / `Leaf!` macros (every macro arm),
    // the way the documentation tells users to build trees; the equivalent specification is written out by hand.
    let nmacro = cfg.n(4, 4_000, 80_000);
    run_cases(cfg, "macro-tree", nmacro, rep, |rng, ctx| {
        let specs = macro_tree_specs();
        let rt = RTree::from_specs(&specs);
        let forms: Vec<(bool, bool)> = (0..MACRO_HANDLERS).map(|_| (false, false)).collect();
        let mut tree_desc = String::from("macro-built: ");
        for s in &specs {
            s.describe(&mut tree_desc, 0);
        }
        let shape = hash_str(&tree_desc);
        drive(rng, ctx, &MACRO_TREE, &rt, &forms, &tree_desc, shape, nhist);
    });
}

/// handler of the macro-built tree: records its invocation, reads whatever data there is, answers its number
pub struct MH<const ID: u32>;
impl<const ID: u32> scpi::tree::prelude::Command<Dev> for MH<ID> {
    // the hint macros of the library, spread over the handlers (all of them implement both forms)
    fn meta(&self) -> scpi::tree::prelude::CommandTypeMeta {
        struct Q;
        impl scpi::tree::prelude::Command<Dev> for Q {
            scpi::cmd_qonly!();
        }
        struct N;
        impl scpi::tree::prelude::Command<Dev> for N {
            scpi::cmd_nquery!();
        }
        struct B;
        impl scpi::tree::prelude::Command<Dev> for B {
            scpi::cmd_both!();
        }
        match ID % 4 {
            0 => scpi::tree::prelude::Command::<Dev>::meta(&Q),
            1 => scpi::tree::prelude::Command::<Dev>::meta(&N),
            2 => scpi::tree::prelude::Command::<Dev>::meta(&B),
            _ => scpi::tree::prelude::CommandTypeMeta::Unknown,
        }
    }
    fn event(&self, dev: &mut Dev, _c: &mut Context, mut params: scpi::tree::prelude::Parameters) -> scpi::error::Result<()> {
        dev.log.push(Ev::Invoke { h: ID, query: false });
        while params.next_optional_token()?.is_some() {}
        Ok(())
    }
    fn query(&self, dev: &mut Dev, _c: &mut Context, mut params: scpi::tree::prelude::Parameters, mut resp: scpi::tree::prelude::ResponseUnit) -> scpi::error::Result<()> {
        dev.log.push(Ev::Invoke { h: ID, query: true });
        while params.next_optional_token()?.is_some() {}
        resp.data(ID).finish()
    }
}

use scpi::{Branch, Leaf, Root};
const MACRO_HANDLERS: usize = 17;
const MACRO_TREE: scpi::tree::Node<'static, Dev> = Root![
    Leaf!(b"*IDN" => &MH::<0>),
    Branch!(b"SYSTem";
        Branch!(b"ERRor";
            Leaf!(default b"NEXT" => &MH::<1>),
            Leaf!(b"ALL" => &MH::<2>),
            Leaf!(b"COUNt" => &MH::<3>)),
        Leaf!(b"VERSion" => &MH::<4>)),
    Branch!(b"CONFigure" => &MH::<5>;
        Branch!(default b"SCALar";
            Branch!(b"VOLTage" => &MH::<6>;
                Leaf!(b"DC" => &MH::<7>),
                Leaf!(b"AC" => &MH::<8>)),
            Leaf!(b"CURRent2" => &MH::<9>))),
    Branch!(default b"SENSe";
        Branch!(b"FREQuency";
            Leaf!(default b"CW" => &MH::<10>),
            Leaf!(b"STARt" => &MH::<11>)),
        Leaf!(b"RANGe" => &MH::<12>)),
    Leaf!(b"OUTPut1" => &MH::<13>),
    Leaf!(b"OUTPut2" => &MH::<14>),
    Branch!(b"TRIGger3" => &MH::<15>;
        Leaf!(b"SOURce" => &MH::<16>)),
    Leaf!(b"*RST" => &MH::<0>)
];

fn macro_tree_specs() -> Vec<Spec> {
    let l = |n: &[u8], h: usize| Spec::leaf(n, false, h);
    let dl = |n: &[u8], h: usize| Spec::leaf(n, true, h);
    let b = |n: &[u8], sub: Vec<Spec>| Spec::branch(n, false, sub);
    let db = |n: &[u8], sub: Vec<Spec>| Spec::branch(n, true, sub);
    vec![
        l(b"*IDN", 0),
        b(b"SYSTem", vec![b(b"ERRor", vec![dl(b"NEXT", 1), l(b"ALL", 2), l(b"COUNt", 3)]), l(b"VERSion", 4)]),
        b(b"CONFigure", vec![dl(b"", 5), db(b"SCALar", vec![b(b"VOLTage", vec![dl(b"", 6), l(b"DC", 7), l(b"AC", 8)]), l(b"CURRent2", 9)])]),
        db(b"SENSe", vec![b(b"FREQuency", vec![dl(b"CW", 10), l(b"STARt", 11)]), l(b"RANGe", 12)]),
        l(b"OUTPut1", 13),
        l(b"OUTPut2", 14),
        b(b"TRIGger3", vec![dl(b"", 15), l(b"SOURce", 16)]),
        l(b"*RST", 0),
    ]
}

#[allow(clippy::too_many_arguments)]
fn drive(rng: &mut Rng, ctx: &mut Ctx, root: &scpi::tree::Node<Dev>, rt: &RTree, forms: &[(bool, bool)], tree_desc: &str, shape: u64, nhist: usize) {
    {
        let mut dev = Dev::new();
        let mut c = Context::default();
        for _ in 0..nhist {
            // one history = several messages on the same tree/device/context
            let nmsg = 1 + rng.usize(4);
            for _ in 0..nmsg {
                bump(ctx, 1);
                let mu = if rng.chance(1, 3) { 8 } else { 3 };
                let nunits = 1 + rng.usize(mu);
                let mut msg: Vec<u8> = Vec::new();
                let mut level = 0usize; // every message starts at the root
                let mut expect: Vec<(u32, bool)> = vec![];
                let mut expect_err = false;
                let mut verdict = true;
                let mut h = shape;
                let mut kinds: Vec<&'static str> = vec![];
                for u in 0..nunits {
                    let g = gen_unit(rng, rt, level, u == 0, true);
                    if u > 0 {
                        ws0(rng, &mut msg);
                        msg.push(b';');
                        ws0(rng, &mut msg);
                    }
                    if g.colon {
                        msg.push(b':');
                    }
                    for (i, m) in g.mnems.iter().enumerate() {
                        if i > 0 {
                            msg.push(b':');
                        }
                        msg.extend_from_slice(m);
                    }
                    if g.query {
                        msg.push(b'?');
                    }
                    if rng.chance(1, 6) {
                        ws1(rng, &mut msg);
                        msg.extend_from_slice(if rng.bool() { b"12" } else { b"'x;y'" });
                    }
                    kinds.push(g.kind);
                    // oracle
                    let refs: Vec<&[u8]> = g.mnems.iter().map(|m| &m[..]).collect();
                    let is_common = g.mnems[0].first() == Some(&b'*');
                    let from = if g.colon || u == 0 || is_common { 0 } else { level };
                    let res = rt.resolve(from, &refs);
                    h = mix(h, hash_str(g.kind) ^ g.query as u64);
                    match res {
                        Res::Leaf { handler, .. } if (g.query && forms[handler].1) || (!g.query && forms[handler].0) => {
                            expect_err = true;
                            ctx.count("unit.form-not-defined-by-the-command");
                            break;
                        }
                        Res::Leaf { handler, level: nl, .. } => {
                            expect.push((handler as u32, g.query));
                            if !is_common {
                                level = nl;
                            }
                            ctx.count(&format!("unit.{}.resolves", g.kind));
                        }
                        Res::Undefined => {
                            expect_err = true;
                            ctx.count(&format!("unit.{}.undefined", g.kind));
                            break;
                        }
                        Res::Ambiguous => {
                            verdict = false;
                            ctx.count("SELFCHECK-FAILED.generated-tree-is-ambiguous");
                            break;
                        }
                        Res::Unspecified => {
                            verdict = false;
                            ctx.count("unit.unspecified(leading-zero suffix)");
                            break;
                        }
                    }
                }
                if !verdict {
                    continue;
                }
                if rng.chance(1, 3) {
                    msg.push(b'\n');
                }
                dev.clear();
                let mut resp: Vec<u8> = Vec::new();
                // message-available as the interface would report it: must not influence dispatch
                c.mav = rng.chance(1, 3);
                let r = root.run(&msg, &mut dev, &mut c, &mut resp);
                let got = dev.invocations();
                ctx.add("invocations.observed", got.len() as u64);
                ctx.nontrivial(h);
                let detail = |got: &Vec<(u32, bool)>| {
                    jobj(&[("tree", jstr(tree_desc)), ("message", jbytes(&msg)), ("expected_invocations", jstr(&format!("{:?}", expect))), ("observed_invocations", jstr(&format!("{:?}", got))), ("expected_error", expect_err.to_string()), ("result", jstr(&format!("{:?}", r.as_ref().err().map(|e| e.get_code())))), ("unit_kinds", jstr(&kinds.join(",")))])
                };
                if got != expect {
                    // classify
                    let k = got.iter().zip(expect.iter()).position(|(a, b)| a != b).unwrap_or(got.len().min(expect.len()));
                    let sig = if k < got.len() && k < expect.len() {
                        if got[k].0 != expect[k].0 { format!("C02:wrong-handler:{}", kinds.get(k).unwrap_or(&"?")) } else { "C02:wrong-form(event-vs-query)".to_string() }
                    } else if got.len() > expect.len() {
                        format!("C02:handler-invoked-for-undefined-or-later-unit:{}", kinds.get(k).unwrap_or(&"?"))
                    } else {
                        format!("C02:designated-handler-not-invoked:{}", kinds.get(k).unwrap_or(&"?"))
                    };
                    ctx.violation(&sig, detail(&got));
                    continue;
                }
                match (&r, expect_err) {
                    (Ok(()), false) => ctx.count("messages.ok"),
                    (Err(e), true) if e.get_code() == -113 => {
                        ctx.count("messages.undefined-header");
                        if dev.hook.len() != 1 || dev.hook[0] != *e {
                            ctx.violation("C02:error-hook-not-called-exactly-once-with-the-error", detail(&got));
                        }
                    }
                    (Err(e), true) => ctx.violation(&format!("C02:undefined-header-reported-as:{}", e.get_code()), detail(&got)),
                    (Ok(()), true) => ctx.violation("C02:undefined-header-not-reported", detail(&got)),
                    (Err(e), false) => ctx.violation(&format!("C02:resolvable-message-failed:{}", e.get_code()), detail(&got)),
                }
                if ctx.index % 97 == 0 {
                    ctx.sample(|| jobj(&[("tree", jstr(tree_desc)), ("message", jbytes(&msg)), ("invocations(handler,query)", jstr(&format!("{:?}", expect))), ("undefined_header_expected", expect_err.to_string())]));
                }
            }
        }
    }
}
