//! C11 — fixed-capacity formatter: never beyond capacity, never a panic, -225 when it does not
//! fit, identical bytes when it fits; no heap allocation inside `Node::run`.
use crate::fw::*;
use crate::gen::tree::*;
use crate::mon::capdispatch::{run_cap, run_cap_pre, CAPS};
use crate::mon::dev::*;
use crate::mon::tree::*;
use crate::props::c04::corrupt;
use crate::props::c10::{framing_scripts, gen_plan};
use crate::refm::resolver::*;
use scpi::Context;

/// data elements that drive every typed conversion, incl. multi-dimensional channel lists and numeric lists
fn conversion_data(rng: &mut Rng) -> Vec<u8> {
    let pool: &[&[u8]] = &[
        b"(@1)", b"(@1!2)", b"(@1!2!3)", b"(@1!2:3!4,5!6!7:8!9!10,11)", b"(@-1!+2,3)", b"(1,2:3,4.5e3)", b"(1:2)", b"12", b"-12.5e3", b"1e400", b"#HFF", b"#B101", b"'text'", b"\"a\"\"b\"", b"#13abc",
        b"MAX", b"MIN", b"DEF", b"ON", b"OFF", b"ONCE", b"INF", b"NAN", b"UP", b"1 V", b"2.5 MHZ", b"3 MS", b"10 CEL", b"4 VPK", b"5 DBMV", b"POTATO", b"1.5 KOHM",
    ];
    let n = 1 + rng.usize(3);
    let mut v = Vec::new();
    for i in 0..n {
        if i > 0 {
            v.push(b',');
        }
        let d: &[u8] = *rng.pick(pool);
        v.extend_from_slice(d);
    }
    v
}

pub fn run(cfg: &Cfg, rep: &mut Report) {
    // the growable buffer - the reference the fixed ones are compared with - takes responses of any size
    crate::props::c10::large_responses(cfg, rep, "C11");
    // (0) typed parameter conversions: no heap allocation inside Node::run whatever the handler converts to
    let n = cfg.n(16, 60_000, 40_000_000);
    run_cases(cfg, "conversions", n, rep, |rng, ctx| {
        let conv = ALL_CONVS[(ctx.index % ALL_CONVS.len() as u64) as usize];
        let built = crate::props::c01_boundary::single_conversion_tree(conv);
        let mut dev = Dev::new();
        dev.log.reserve(1 << 12);
        dev.hook.reserve(16);
        let mut c = Context::default();
        for _ in 0..8 {
            bump(ctx, 1);
            let mut msg = if rng.bool() { b"A ".to_vec() } else { b"A? ".to_vec() };
            msg.extend_from_slice(&conversion_data(rng));
            dev.clear();
            let cap = *rng.pick(&[64usize, 128, 256, 4096]);
            let cr = run_cap(cap, built.root(), &msg, &mut dev, &mut c).unwrap();
            ctx.count("runs.allocation-counted");
            ctx.count(&format!("conversion-target.{:?}", conv));
            ctx.nontrivial(mix(hash_bytes(&msg), conv as u64));
            if cr.allocs != 0 {
                ctx.violation(&format!("C11:heap-allocation-during-run:conversion-{:?}", conv), jobj(&[("message", jbytes(&msg)), ("conversion", jstr(&format!("{:?}", conv))), ("allocations", cr.allocs.to_string()), ("result", jstr(&format!("{:?}", cr.result.as_ref().err().map(|e| e.get_code()))))]));
            }
        }
    });
    let ntrees = cfg.n(32, 30_000, 1_500_000);
    let nmsg = cfg.n(3, 12, 25) as usize;
    run_cases(cfg, "capacity", ntrees, rep, |rng, ctx| {
        let (specs, nh) = TreeGen::generate(rng, true);
        let mut scripts = framing_scripts(rng, nh, false);
        // the oracle here is differential (fixed-capacity against growable), so it also holds for answers whose framing
        // C10 leaves open: queries that write no data at all (header only, or nothing) and data whose text is empty
        for s in scripts.iter_mut() {
            match rng.usize(16) {
                0 => s.emit.clear(),
                1 => {
                    s.emit.clear();
                    s.headers.clear();
                }
                2 => {
                    let at = rng.usize(s.emit.len() + 1);
                    s.emit.insert(at, Val::Chr(b""));
                }
                _ => {}
            }
        }
        let built: Built<Dev, Script> = Built::new(&specs, scripts.clone());
        let rt = RTree::from_specs(&specs);
        let mut dev = Dev::new();
        dev.log.reserve(1 << 14);
        dev.hook.reserve(16);
        let mut c = Context::default();
        for mi in 0..nmsg {
            let plan = gen_plan(rng, &rt, 4);
            let hostile = mi % 4 == 3;
            let msg: Vec<u8> = if hostile {
                if rng.bool() {
                    corrupt(rng, &plan.msg).0
                } else {
                    let n = rng.usize(40);
                    (0..n).map(|_| if rng.bool() { *rng.pick(b"A:;?*,#'\"( )1.E\n") } else { rng.next() as u8 }).collect()
                }
            } else {
                plan.msg.clone()
            };
            // now and then both buffers still hold something (a response that was not cleared away): whatever the
            // library makes of that, it makes the same of it in both formatters
            let pre: &[u8] = if rng.chance(1, 6) { *rng.pick(&[&b"7\n"[..], b"1", b"A 1;", b"\"x\"\n", b";"]) } else { &[] };
            if !pre.is_empty() {
                ctx.count("runs.buffer-not-empty-at-start");
            }
            // reference run with the growable buffer
            dev.clear();
            let mut full: Vec<u8> = pre.to_vec();
            c.mav = rng.chance(1, 3);
            let r_full = built.root().run(&msg, &mut dev, &mut c, &mut full);
            let inv_full = dev.invocations().len();
            let maxcap = full.len() + 2;
            let caps: Vec<usize> = if ctx.cfg.tiny {
                let mut v: Vec<usize> = vec![0, 1, full.len().saturating_sub(1), full.len(), full.len() + 1];
                v.push(rng.usize(maxcap + 1));
                v.retain(|c| CAPS.contains(c));
                v.sort();
                v.dedup();
                v
            } else {
                CAPS.iter().copied().filter(|c| *c <= maxcap || (*c >= full.len() && [200, 255, 256, 4096].contains(c))).collect()
            };
            for cap in caps {
                if cap < pre.len() {
                    continue;
                }
                bump(ctx, 1);
                dev.clear();
                let cr = run_cap_pre(cap, pre, built.root(), &msg, &mut dev, &mut c).unwrap();
                let detail = || {
                    jobj(&[("message", jbytes(&msg)), ("capacity", cap.to_string()), ("growable_result", jstr(&format!("{:?}", r_full.as_ref().err().map(|e| e.get_code())))), ("growable_response", jbytes(&full)), ("result", jstr(&format!("{:?}", cr.result.as_ref().err().map(|e| e.get_code())))), ("buffer", jbytes(&cr.buf)), ("allocations", cr.allocs.to_string())])
                };
                if cr.allocs != 0 {
                    ctx.violation("C11:heap-allocation-during-run", detail());
                }
                ctx.count("runs.allocation-counted");
                if cr.buf.len() > cap {
                    ctx.violation("C11:buffer-longer-than-capacity", detail());
                }
                match &r_full {
                    Ok(()) => {
                        if cap >= full.len() {
                            ctx.count("fits");
                            match &cr.result {
                                Ok(()) if cr.buf == full => {}
                                Ok(()) => ctx.violation("C11:fits-but-bytes-differ-from-growable", detail()),
                                Err(e) => ctx.violation(&format!("C11:fits-but-fails:{}", e.get_code()), detail()),
                            }
                        } else {
                            ctx.count("does-not-fit");
                            ctx.nontrivial(mix(hash_bytes(&full), cap as u64));
                            match &cr.result {
                                Ok(()) => ctx.violation("C11:does-not-fit-but-succeeds", detail()),
                                Err(e) if e.get_code() != -225 => ctx.violation(&format!("C11:does-not-fit-reported-as:{}", e.get_code()), detail()),
                                Err(e) => {
                                    if dev.hook.len() != 1 || dev.hook[0] != *e {
                                        ctx.violation("C11:error-hook-not-called-exactly-once-with-225", detail());
                                    }
                                    // what the buffer holds after a failed message is not specified (only its length is bounded)
                                    if full[..cr.buf.len().min(full.len())] != cr.buf[..] {
                                        ctx.count("observation.partial-buffer-not-a-prefix-of-the-response");
                                    }
                                    if dev.invocations().len() > inv_full {
                                        ctx.violation("C11:more-handlers-invoked-than-in-growable-run", detail());
                                    }
                                }
                            }
                        }
                    }
                    Err(e_full) => {
                        // failing / hostile message: an error is returned at every capacity, no panic
                        ctx.count("hostile-or-failing");
                        match &cr.result {
                            Ok(()) => ctx.violation("C11:failing-message-succeeds-with-fixed-buffer", detail()),
                            Err(e) => {
                                if e.get_code() != e_full.get_code() && e.get_code() != -225 {
                                    ctx.violation(&format!("C11:failing-message-different-error:{}-vs-{}", e.get_code(), e_full.get_code()), detail());
                                }
                            }
                        }
                    }
                }
            }
            if ctx.index % 499 == 0 && !hostile {
                ctx.sample(|| jobj(&[("message", jbytes(&msg)), ("full_response", jbytes(&full)), ("capacities_swept", jstr(&format!("0..={}", maxcap)))]));
            }
        }
    });
}
