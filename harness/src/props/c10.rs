//! C10 — response framing: `;` between units, `,` between data, header SP data, one final NL iff
//! something was produced; nothing for non-queries.
use crate::fw::*;
use crate::gen::msg::*;
use crate::gen::scen::*;
use crate::gen::tree::*;
use crate::mon::capdispatch::run_cap;
use crate::mon::dev::*;
use crate::mon::tree::*;
use crate::refm::decode::split_response;
use crate::refm::resolver::*;
use scpi::Context;

/// Scripts for a tree: every leaf answers queries with 1..5 data (0..2 headers) and accepts events.
pub fn framing_scripts(rng: &mut Rng, nh: usize, allow_lists: bool) -> Vec<Script> {
    (0..nh)
        .map(|i| {
            let nhd = match rng.usize(6) {
                0 => 1,
                1 => 2,
                _ => 0,
            };
            let mx = if rng.chance(1, 4) { 5 } else { 2 };
            // now and then one unit with more data elements than an 8-bit count holds
            let many = rng.chance(1, 120);
            let nd = if many { 254 + rng.usize(50) } else { 1 + rng.usize(mx) };
            let mut emit = vec![];
            while emit.len() < nd {
                let v = if many { Val::U8(rng.usize(10) as u8) } else { gen_val(rng) };
                if !allow_lists && matches!(v, Val::ListI32(_)) {
                    continue;
                }
                if val_text(&v).is_ok() {
                    emit.push(v);
                }
            }
            Script { id: i as u32, omnivore: true, tolerant: rng.chance(1, 4), finish_each: rng.chance(1, 5), headers: (0..nhd).map(|_| *rng.pick(RESP_HEADERS)).collect(), emit, ..Default::default() }
        })
        .collect()
}

/// text of one response unit as the property defines it
pub fn unit_text(s: &Script) -> Vec<u8> {
    let mut t = Vec::new();
    for (i, h) in s.headers.iter().enumerate() {
        if i > 0 {
            t.push(b':');
        }
        t.extend_from_slice(h);
    }
    for (i, v) in s.emit.iter().enumerate() {
        if i > 0 {
            t.push(b',');
        } else if !s.headers.is_empty() {
            t.push(b' ');
        }
        t.extend_from_slice(&val_text(v).unwrap());
    }
    t
}

pub struct Plan {
    pub msg: Vec<u8>,
    /// (handler, query) per unit
    pub units: Vec<(usize, bool)>,
    pub ending: Ending,
}

pub fn gen_plan(rng: &mut Rng, rt: &RTree, max_units: usize) -> Plan {
    let nunits = 1 + rng.usize(max_units);
    let mut msg = Vec::new();
    let mut level = 0;
    let mut units = vec![];
    let mut gave_up = false;
    for u in 0..nunits {
        let (mut g, h, nl) = gen_resolving_unit(rng, rt, level, u == 0);
        if h == usize::MAX {
            gave_up = true;
            break;
        }
        level = nl;
        // mix of queries and events
        g.query = rng.chance(3, 5);
        if u > 0 {
            ws0(rng, &mut msg);
            msg.push(b';');
            ws0(rng, &mut msg);
        }
        msg.extend_from_slice(&g.header());
        if rng.chance(1, 5) {
            // parameters (ignored by the omnivorous handler)
            ws1(rng, &mut msg);
            let n = 1 + rng.usize(2);
            let data: Vec<GDatum> = (0..n)
                .map(|_| {
                    let k = any_kind(rng);
                    gen_datum(rng, k)
                })
                .collect();
            render_data(rng, &data, &mut msg);
        }
        units.push((h, g.query));
    }
    while gave_up && matches!(msg.last(), Some(b';') | Some(b' ') | Some(b'\t') | Some(b'\r') | Some(0x0c)) && msg.len() > 1 {
        msg.pop();
    }
    let ending = *rng.pick(&ENDINGS);
    render_ending(rng, ending, &mut msg);
    Plan { msg, units, ending }
}

pub fn expected_response(plan: &Plan, scripts: &[Script]) -> (Vec<u8>, usize, usize) {
    let mut out = Vec::new();
    let mut nq = 0;
    let mut nd = 0;
    for (h, q) in &plan.units {
        if *q {
            if nq > 0 {
                out.push(b';');
            }
            out.extend_from_slice(&unit_text(&scripts[*h]));
            nq += 1;
            nd += scripts[*h].emit.len();
        }
    }
    if !out.is_empty() {
        out.push(b'\n');
    }
    (out, nq, nd)
}

/// A value that cannot be written (the library refuses a list without items) must fail its message; if the message
/// succeeds instead, a separator was written for nothing (`7,,9`, `7,`, `HDR `): "no separator ... duplicated or
/// placed inside a unit".
fn unformattable_values(cfg: &Cfg, rep: &mut Report) {
    run_cases(cfg, "unformattable-value", cfg.n(8, 4_000, 200_000), rep, |rng, ctx| {
        bump(ctx, 1);
        let empty = || Val::ListI32(vec![]);
        let scripts = vec![
            Script { id: 0, omnivore: true, emit: vec![Val::U8(1)], ..Default::default() },
            Script { id: 1, omnivore: true, emit: vec![Val::U8(7), empty(), Val::U8(9)], ..Default::default() },
            Script { id: 2, omnivore: true, emit: vec![Val::U8(7), Val::ArrList(arrayvec::ArrayVec::new())], ..Default::default() },
            Script { id: 3, omnivore: true, headers: vec![b"LIST"], emit: vec![Val::ListI32(vec![])], ..Default::default() },
            Script { id: 4, omnivore: true, emit: vec![Val::ArrList(arrayvec::ArrayVec::new()), Val::U8(5)], ..Default::default() },
        ];
        let specs = vec![Spec::leaf(b"ONE", false, 0), Spec::leaf(b"MIX", false, 1), Spec::leaf(b"TAIL", false, 2), Spec::leaf(b"HEAD", false, 3), Spec::leaf(b"FRONt", false, 4)];
        let built: Built<Dev, Script> = Built::new(&specs, scripts);
        let bad: &[u8] = *rng.pick(&[&b"MIX?"[..], b"TAIL?", b"HEAD?", b"FRON?"]);
        let mut msg: Vec<u8> = Vec::new();
        for _ in 0..rng.usize(3) {
            msg.extend_from_slice(b"ONE?;");
        }
        msg.extend_from_slice(bad);
        for _ in 0..rng.usize(3) {
            msg.extend_from_slice(b";ONE?");
        }
        if rng.bool() {
            msg.push(b'\n');
        }
        ctx.nontrivial(hash_bytes(&msg));
        let mut dev = Dev::new();
        let mut c = Context::default();
        let (r, got) = if rng.bool() {
            let cr = run_cap(512, built.root(), &msg, &mut dev, &mut c).unwrap();
            (cr.result, cr.buf)
        } else {
            let mut resp: Vec<u8> = Vec::new();
            let r = built.root().run(&msg, &mut dev, &mut c, &mut resp);
            (r, resp)
        };
        match r {
            Err(e) => ctx.count(&format!("unformattable-value.message-fails-with.{}", e.get_code())),
            Ok(()) => ctx.violation("C10:separator-written-for-a-value-that-was-not-written", jobj(&[("message", jbytes(&msg)), ("observed", jbytes(&got))])),
        }
    });
}

/// A datum whose text is empty (an empty field of an `*IDN?`-style answer, given as empty character data) is still a
/// data element: its separators stay (`ACME,X1,,1.0`, `NAME ,3`). Only judged when the message succeeds.
fn empty_fields(cfg: &Cfg, rep: &mut Report) {
    run_cases(cfg, "empty-field", cfg.n(8, 4_000, 200_000), rep, |rng, ctx| {
        bump(ctx, 1);
        let e = || Val::Chr(b"");
        let scripts = vec![
            Script { id: 0, omnivore: true, emit: vec![Val::U8(1)], ..Default::default() },
            Script { id: 1, omnivore: true, emit: vec![Val::Chr(b"ACME"), Val::Chr(b"X1"), e(), Val::Chr(b"1.0")], ..Default::default() },
            Script { id: 2, omnivore: true, headers: vec![b"NAME"], emit: vec![e(), Val::U8(3)], ..Default::default() },
            Script { id: 3, omnivore: true, emit: vec![e(), Val::U8(2)], ..Default::default() },
            Script { id: 4, omnivore: true, emit: vec![Val::U8(4), e()], ..Default::default() },
            Script { id: 5, omnivore: true, emit: vec![Val::Str(b""), e(), e(), Val::Arb(b""), Val::Utf8("")], ..Default::default() },
        ];
        let specs = vec![Spec::leaf(b"ONE", false, 0), Spec::leaf(b"*IDN", false, 1), Spec::leaf(b"NAME", false, 2), Spec::leaf(b"FRONt", false, 3), Spec::leaf(b"TAIL", false, 4), Spec::leaf(b"MIX", false, 5)];
        let built: Built<Dev, Script> = Built::new(&specs, scripts.clone());
        let heads: [&[u8]; 6] = [b"ONE", b"*IDN", b"NAME", b"FRON", b"TAIL", b"MIX"];
        let mut msg: Vec<u8> = Vec::new();
        let mut units = vec![];
        let n = 1 + rng.usize(4);
        let mut has_empty = false;
        for u in 0..n {
            let h = if u == 0 && !rng.chance(1, 3) { rng.usize(6) } else { rng.usize(6) };
            has_empty |= h != 0;
            if u > 0 {
                msg.push(b';');
            }
            msg.extend_from_slice(heads[h]);
            let q = rng.chance(4, 5);
            if q {
                msg.push(b'?');
            }
            units.push((h, q));
        }
        if !has_empty {
            return;
        }
        let ending = *rng.pick(&ENDINGS);
        render_ending(rng, ending, &mut msg);
        let plan = Plan { msg, units, ending };
        let (want, _, _) = expected_response(&plan, &scripts);
        ctx.nontrivial(hash_bytes(&plan.msg));
        let mut dev = Dev::new();
        let mut c = Context::default();
        let (r, got) = if rng.bool() {
            let cr = run_cap(512, built.root(), &plan.msg, &mut dev, &mut c).unwrap();
            (cr.result, cr.buf)
        } else {
            let mut resp: Vec<u8> = Vec::new();
            let r = built.root().run(&plan.msg, &mut dev, &mut c, &mut resp);
            (r, resp)
        };
        match r {
            Err(e) => ctx.count(&format!("empty-field.message-fails-with.{}(no verdict)", e.get_code())),
            Ok(()) if got == want => ctx.count("empty-field.separators-kept"),
            Ok(()) => ctx.violation("C10:separator-of-an-empty-datum-missing-or-misplaced", jobj(&[("message", jbytes(&plan.msg)), ("expected", jbytes(&want)), ("observed", jbytes(&got))])),
        }
    });
}

/// One query returning a trace: thousands of data elements in one response message unit (counts around the limits of
/// 8-, 12-, 16- and 17-bit counters), alone or between two short queries. Every element is there, separated by exactly one comma.
fn long_units(cfg: &Cfg, rep: &mut Report) {
    if cfg.tiny {
        return;
    }
    run_cases(cfg, "trace", cfg.n(1, 160, 1_600), rep, |rng, ctx| {
        bump(ctx, 1);
        let n = match rng.usize(8) {
            0 => 254 + rng.usize(6),
            1 => 4093 + rng.usize(6),
            2 | 3 => 65_533 + rng.usize(6),
            4 => 131_069 + rng.usize(6),
            5 => 70_000 + rng.usize(1000),
            _ => 1000 + rng.usize(3000),
        };
        let emit: Vec<Val> = (0..n).map(|i| if i % 7 == 3 { Val::Chr(b"") } else { Val::U8((i % 10) as u8) }).collect();
        let with_header = rng.chance(1, 4);
        let scripts = vec![Script { id: 0, omnivore: true, emit: vec![Val::U8(1)], ..Default::default() }, Script { id: 1, omnivore: true, headers: if with_header { vec![b"TRAC"] } else { vec![] }, emit, finish_each: rng.chance(1, 6), ..Default::default() }];
        let specs = vec![Spec::leaf(b"ONE", false, 0), Spec::leaf(b"TRACe", false, 1)];
        let built: Built<Dev, Script> = Built::new(&specs, scripts.clone());
        let (msg, units): (&[u8], Vec<(usize, bool)>) = match rng.usize(3) {
            0 => (b"TRAC?", vec![(1, true)]),
            1 => (b"ONE?;TRAC?;ONE?", vec![(0, true), (1, true), (0, true)]),
            _ => (b"TRACE?;ONE?", vec![(1, true), (0, true)]),
        };
        let mut m = msg.to_vec();
        let ending = *rng.pick(&ENDINGS);
        render_ending(rng, ending, &mut m);
        let plan = Plan { msg: m, units, ending };
        let (want, _, _) = expected_response(&plan, &scripts);
        ctx.nontrivial(mix(n as u64, hash_bytes(&plan.msg)));
        let mut dev = Dev::new();
        let mut c = Context::default();
        let mut resp: Vec<u8> = Vec::new();
        let r = built.root().run(&plan.msg, &mut dev, &mut c, &mut resp);
        ctx.count(&format!("trace.elements.{}", if n < 300 { "~2^8" } else if n < 4000 { "1000-4000" } else if n < 5000 { "~2^12" } else if n < 66_000 { "~2^16" } else if n < 80_000 { "70000-71000" } else { "~2^17" }));
        match r {
            Ok(()) if resp == want => ctx.add("response-data.decoded", n as u64),
            other => {
                let first = resp.iter().zip(want.iter()).position(|(a, b)| a != b).unwrap_or(resp.len().min(want.len()));
                ctx.violation("C10:trace:long-unit-framed-differently", jobj(&[("message", jbytes(&plan.msg)), ("elements", n.to_string()), ("result", jstr(&format!("{:?}", other.map_err(|e| e.get_code())))), ("expected_len", want.len().to_string()), ("observed_len", resp.len().to_string()), ("first_difference_at", first.to_string()), ("observed_around", jbytes(&resp[first.saturating_sub(12)..(first + 12).min(resp.len())]))]))
            }
        }
    });
}

/// Responses of a megabyte and more into the growable buffer (a screen dump, a waveform as a block; several such units in one
/// message): the growable buffer is the reference a fixed one is compared with, so it takes whatever the handlers send.
pub fn large_responses(cfg: &Cfg, rep: &mut Report, pfx: &'static str) {
    if cfg.tiny {
        return;
    }
    run_cases(cfg, "large-responses", cfg.n(1, 24, 240), rep, move |rng, ctx| {
        bump(ctx, 1);
        static PAYLOAD: std::sync::OnceLock<&'static [u8]> = std::sync::OnceLock::new();
        let pay: &'static [u8] = PAYLOAD.get_or_init(|| Box::leak((0..6_000_000usize).map(|i| (i % 251) as u8).collect::<Vec<u8>>().into_boxed_slice()));
        let n = match rng.usize(6) {
            0 => (1 << 20) - 12 + rng.usize(24),
            1 => 1_100_000 + rng.usize(1000),
            2 => (1 << 21) - 12 + rng.usize(24),
            3 => (1 << 22) - 12 + rng.usize(24),
            4 => 999_990 + rng.usize(20),
            _ => 300_000 + rng.usize(5_000_000),
        };
        let k = 1 + rng.usize(3);
        let scripts = vec![Script { id: 0, omnivore: true, emit: vec![Val::Arb(&pay[..n])], ..Default::default() }, Script { id: 1, omnivore: true, emit: vec![Val::Arb(&pay[..n / 3]), Val::U8(7)], ..Default::default() }];
        let specs = vec![Spec::leaf(b"DUMP", false, 0), Spec::leaf(b"PART", false, 1)];
        let built: Built<Dev, Script> = Built::new(&specs, scripts.clone());
        let mut msg: Vec<u8> = Vec::new();
        let mut units = vec![];
        for i in 0..k {
            if i > 0 {
                msg.push(b';');
            }
            let h = if i == 0 || rng.bool() { 0 } else { 1 };
            msg.extend_from_slice(if h == 0 { b"DUMP?" } else { b"PART?" });
            units.push((h, true));
        }
        let ending = *rng.pick(&ENDINGS);
        render_ending(rng, ending, &mut msg);
        let plan = Plan { msg, units, ending };
        // expected bytes written out here (IEEE 488.2 8.7.9 definite-length block: #<digits><length><bytes>), not through the library
        let block = |b: &[u8]| -> Vec<u8> {
            let l = b.len().to_string();
            [format!("#{}{}", l.len(), l).as_bytes(), b].concat()
        };
        let mut want: Vec<u8> = Vec::new();
        for (i, (h, _)) in plan.units.iter().enumerate() {
            if i > 0 {
                want.push(b';');
            }
            if *h == 0 {
                want.extend_from_slice(&block(&pay[..n]));
            } else {
                want.extend_from_slice(&block(&pay[..n / 3]));
                want.extend_from_slice(b",7");
            }
        }
        want.push(b'\n');
        ctx.nontrivial(mix(n as u64, hash_bytes(&plan.msg)));
        ctx.count(&format!("large-responses.total-bytes.{}", if want.len() < (1 << 20) { "<1MiB" } else if want.len() < (1 << 22) { "1-4MiB" } else { ">=4MiB" }));
        let mut dev = Dev::new();
        let mut c = Context::default();
        let mut resp: Vec<u8> = Vec::new();
        let r = built.root().run(&plan.msg, &mut dev, &mut c, &mut resp);
        if r.is_err() || resp != want {
            let first = resp.iter().zip(want.iter()).position(|(a, b)| a != b).unwrap_or(resp.len().min(want.len()));
            ctx.violation(&format!("{}:large-response:growable-buffer-fails-or-differs", pfx), jobj(&[("message", jbytes(&plan.msg)), ("block_bytes", n.to_string()), ("result", jstr(&format!("{:?}", r.map_err(|e| e.get_code())))), ("expected_len", want.len().to_string()), ("observed_len", resp.len().to_string()), ("first_difference_at", first.to_string())]));
        }
    });
}

pub fn run(cfg: &Cfg, rep: &mut Report) {
    large_responses(cfg, rep, "C10");
    unformattable_values(cfg, rep);
    empty_fields(cfg, rep);
    long_units(cfg, rep);
    let ntrees = cfg.n(6, 60_000, 1_200_000);
    let nmsg = cfg.n(8, 100, 250) as usize;
    run_cases(cfg, "framing", ntrees, rep, |rng, ctx| {
        let (specs, nh) = TreeGen::generate(rng, true);
        let mut scripts = framing_scripts(rng, nh, true);
        // some handlers write their answer and return Ok(()) themselves instead of handing back `finish()`
        // (every value here can be formatted and the buffers are ample, so there is no error to lose)
        for s in scripts.iter_mut() {
            s.skip_finish = !s.finish_each && rng.chance(1, 8);
        }
        let built: Built<Dev, Script> = Built::new(&specs, scripts.clone());
        let rt = RTree::from_specs(&specs);
        let mut dev = Dev::new();
        let mut c = Context::default();
        for _ in 0..nmsg {
            bump(ctx, 1);
            let many = if rng.chance(1, 400) && !ctx.cfg.tiny { 300 } else { 10 };
            let plan = gen_plan(rng, &rt, many);
            let (want, nq, nd) = expected_response(&plan, &scripts);
            dev.clear();
            // growable formatter, and now and then the fixed-capacity one with ample room
            let use_array = rng.chance(1, 4);
            // mostly ample room; now and then a capacity that holds the response units exactly but not the terminator, or
            // exactly everything (a message that then still succeeds must be framed like any other)
            let cap = if use_array && want.len() >= 1 && want.len() <= 160 && rng.chance(1, 3) { want.len() - rng.usize(2) } else { 4096 };
            let (r, got) = if use_array {
                let cr = run_cap(cap, built.root(), &plan.msg, &mut dev, &mut c).unwrap();
                if cap != 4096 {
                    ctx.count(if cap == want.len() { "formatter.ArrayVec.exact-fit" } else { "formatter.ArrayVec.terminator-does-not-fit" });
                    if let Err(e) = &cr.result {
                        // does not fit: not a successfully executed message, nothing to judge here (C11 does)
                        ctx.count(&format!("formatter.ArrayVec.small.fails-with.{}", e.get_code()));
                        continue;
                    }
                }
                (cr.result, cr.buf)
            } else {
                let mut resp: Vec<u8> = Vec::new();
                // the interface's message-available flag (set or left over from an earlier call) must not
                // change the framing
                c.mav = rng.chance(1, 3);
                let r = built.root().run(&plan.msg, &mut dev, &mut c, &mut resp);
                (r, resp)
            };
            if use_array && want.len() > 4096 {
                continue;
            }
            ctx.count(&format!("ending.{:?}", plan.ending));
            ctx.count(&format!("formatter.{}", if use_array { "ArrayVec<u8,4096>" } else { "Vec<u8>" }));
            ctx.count(&format!("queries-in-message.{}", nq.min(6)));
            let detail = || jobj(&[("message", jbytes(&plan.msg)), ("units(handler,query)", jstr(&format!("{:?}", plan.units))), ("ending", jstr(&format!("{:?}", plan.ending))), ("expected", jbytes(&want)), ("observed", jbytes(&got)), ("result", jstr(&format!("{:?}", r.as_ref().err().map(|e| e.get_code()))))]);
            if let Err(e) = &r {
                ctx.violation(&format!("C10:well-formed-message-failed:{}", e.get_code()), detail());
                continue;
            }
            ctx.nontrivial(mix(hash_bytes(&want), plan.ending as u64 + 16 * plan.units.len() as u64));
            if got != want {
                let sig = if want.is_empty() {
                    "C10:output-for-message-without-queries"
                } else if got.len() + 1 == want.len() && got[..] == want[..got.len()] {
                    match plan.ending {
                        Ending::Semi | Ending::SemiNl | Ending::SemiWs => "C10:terminator-missing:message-ends-with-semicolon",
                        _ => "C10:terminator-missing",
                    }
                } else if got.len() == want.len() + 1 && got[..want.len()] == want[..] {
                    "C10:terminator-duplicated"
                } else if got.iter().filter(|c| **c == b';').count() != want.iter().filter(|c| **c == b';').count() {
                    "C10:unit-separator-missing-or-duplicated"
                } else {
                    "C10:response-bytes-differ"
                };
                ctx.violation(sig, detail());
                continue;
            }
            // structural re-check with the independent decoder
            if !want.is_empty() {
                let hl: Vec<usize> = plan.units.iter().filter(|u| u.1).map(|u| {
                    let s = &scripts[u.0];
                    if s.headers.is_empty() { 0 } else { s.headers.iter().map(|h| h.len() + 1).sum::<usize>() }
                }).collect();
                match split_response(&got, true, &hl) {
                    None => ctx.violation("C10:response-not-decodable", detail()),
                    Some(units) => {
                        // headers make a unit start with "HDR data": count elements only
                        let n_units = units.len();
                        let n_data: usize = units.iter().map(|u| u.len()).sum();
                        // list values and error values contribute several comma-separated elements
                        let extra: usize = plan.units.iter().filter(|u| u.1).map(|u| scripts[u.0].emit.iter().map(|v| match v { Val::ListI32(x) => x.len() - 1, Val::ArrList(x) => x.len() - 1, Val::Err(_) => 1, _ => 0 }).sum::<usize>()).sum();
                        if n_units != nq || n_data != nd + extra {
                            ctx.violation("C10:decoded-structure-differs", detail());
                        }
                        ctx.add("response-units.decoded", n_units as u64);
                        ctx.add("response-data.decoded", n_data as u64);
                    }
                }
            } else {
                ctx.count("messages.without-output");
            }
            if ctx.index % 997 == 0 {
                ctx.sample(|| jobj(&[("message", jbytes(&plan.msg)), ("response", jbytes(&got))]));
            }
        }
    });
}
