//! C08 — float / boolean / keyword conversions denote exactly the literal; only documented element
//! kinds are accepted, everything else is a command error (never a fabricated value).
use crate::fw::*;
use crate::gen::names::random_case;
use crate::gen::num::*;
use crate::refm::decimal::*;
use crate::refm::errclass::is_command_error;
use scpi::error::Error;
use scpi::parser::format::{Arbitrary, Character, Expression};
use scpi::parser::tokenizer::{Token, Tokenizer};

fn float_literal(rng: &mut Rng) -> String {
    match rng.usize(12) {
        0 => rng.pick(ZEROS).to_string(),
        1 | 2 => with_exponent(rng),
        3 => {
            let p = random_plain(rng);
            respell(rng, &p)
        }
        4 => {
            // shortest representation of a random f64 / f32 and a one-digit perturbation
            let x = f64::from_bits(rng.next());
            if x.is_finite() { format!("{:e}", x) } else { "1e0".into() }
        }
        5 => {
            let x = f32::from_bits(rng.next() as u32);
            if x.is_finite() { format!("{:e}", x) } else { "1e0".into() }
        }
        6 => {
            // exact decimal expansion of a midpoint between two adjacent f32 values (halfway case)
            let b = (rng.next() as u32) & 0x7fff_ffff;
            let a = f32::from_bits(b);
            let c = f32::from_bits(b + 1);
            if a.is_finite() && c.is_finite() {
                let mid = (a as f64 + c as f64) / 2.0; // exact in f64
                exact_decimal_f64(mid, rng)
            } else {
                "3.4028235677973366e38".into()
            }
        }
        7 => {
            // 17-20 significant digits
            let nd = 17 + rng.usize(4);
            let mut s = String::new();
            for i in 0..nd {
                s.push((b'0' + if i == 0 { 1 + rng.usize(9) } else { rng.usize(10) } as u8) as char);
                if i == 0 {
                    s.push('.');
                }
            }
            format!("{}e{}", s, rng.range(-320, 308))
        }
        8 => {
            // overflow / underflow thresholds
            rng.pick(&[
                "1.7976931348623157e308", "1.7976931348623158e308", "1.7976931348623159e308", "1.8e308", "1e309", "-1e309", "3.4028234e38", "3.4028235e38", "3.4028236e38",
                "3.40282356779733661637539395458142568448e38", "3.4028235677973366e38", "3.5e38", "-3.5e38", "4.9e-324", "2.4703282292062327e-324", "2.4703282292062328e-324",
                "2.5e-324", "1e-400", "-1e-400", "1.4e-45", "7.0064923216240853e-46", "7.0064923216240854e-46", "7.1e-46", "2.2250738585072014e-308", "2.2250738585072011e-308",
                "1.17549435e-38", "1.1754942e-38",
                // the numbers SCPI uses as sentinels in responses are ordinary finite literals as parameters
                "9.9e37", "9.9E+37", "-9.9E37", "-9.9e+37", "9.91E37", "9.91e+37", "-9.91e37", "99e36", "991e35", "9.90e37", "0.99e38", "0.991E+38", "9.9000001E37", "9.8e37", "9.92e37",
                "99000000000000000000000000000000000000", "99100000000000000000000000000000000000.0", "-99000000000000000000000000000000000000",
                "9007199254740993", "9007199254740992.5", "16777217", "16777216.5", "0.1", "0.3", "1e23", "8.41e21", "9.5367431640625e-7",
            ])
            .to_string()
        }
        9 => {
            // powers of two and ten
            if rng.bool() { format!("1e{}", rng.range(-330, 320)) } else { format!("{:e}", 2f64.powi(rng.range(-1074, 1023) as i32)) }
        }
        10 => {
            // very long digit strings
            let n = 30 + rng.usize(770);
            let mut s = String::new();
            for i in 0..n {
                s.push((b'0' + rng.usize(10) as u8) as char);
                if i == n / 3 && rng.bool() {
                    s.push('.');
                }
            }
            if rng.bool() { format!("{}e-{}", s, rng.usize(900)) } else { s }
        }
        _ => {
            let a = rng.range(-3, 3) as i128;
            let p = around(rng, a);
            respell(rng, &p)
        }
    }
}

/// exact decimal expansion of a finite f64 (all digits), optionally re-spelled with an exponent
fn exact_decimal_f64(x: f64, rng: &mut Rng) -> String {
    // x = m * 2^e exactly; print via big decimal arithmetic on a digit vector
    let bits = x.to_bits();
    let exp = ((bits >> 52) & 0x7ff) as i64;
    let frac = bits & ((1u64 << 52) - 1);
    let (m, e) = if exp == 0 { (frac, -1074) } else { (frac | (1u64 << 52), exp - 1075) };
    // digits of m
    let mut dig: Vec<u8> = m.to_string().bytes().map(|b| b - b'0').collect(); // most significant first
    let mut point_shift = 0i64; // value = dig * 10^-point_shift
    if e >= 0 {
        for _ in 0..e {
            // multiply by 2
            let mut carry = 0;
            for d in dig.iter_mut().rev() {
                let v = *d * 2 + carry;
                *d = v % 10;
                carry = v / 10;
            }
            if carry > 0 {
                dig.insert(0, carry);
            }
        }
    } else {
        for _ in 0..(-e) {
            // divide by 2 = multiply by 5, shift point by one
            let mut carry = 0;
            for d in dig.iter_mut().rev() {
                let v = *d * 5 + carry;
                *d = v % 10;
                carry = v / 10;
            }
            if carry > 0 {
                dig.insert(0, carry);
            }
            point_shift += 1;
        }
    }
    let s: String = dig.iter().map(|d| (b'0' + d) as char).collect();
    let sign = if x < 0.0 { "-" } else { "" };
    let _ = rng;
    format!("{}{}e-{}", sign, s, point_shift)
}

/// Is `lit` exactly halfway between the two adjacent floats whose exact values are `a` and `b` (given as f64, in which the
/// midpoint of two adjacent f32 - and of two adjacent f64 away from the extremes - is computed exactly)?
fn is_exact_tie(lit: &str, a: f64, b: f64) -> bool {
    let mid = a / 2.0 + b / 2.0;
    if !mid.is_finite() || mid == a || mid == b {
        return false;
    }
    let mut dummy = Rng::new(0);
    let exp = exact_decimal_f64(mid, &mut dummy);
    match (parse_nrf(lit.as_bytes()), parse_nrf(exp.as_bytes())) {
        (Some(x), Some(m)) => x == m,
        _ => false,
    }
}

/// Does `lit` agree with the exact midpoint of the two adjacent floats `a` < `b` (given as f64) in magnitude and in its
/// first 17 significant digits, i.e. does it lie at or within about 1e-17 (relative) of the rounding boundary?
fn near_boundary(lit: &str, a: f64, b: f64) -> bool {
    if !a.is_finite() || !b.is_finite() || a == b {
        return false;
    }
    // exact decimal expansion of (a + b) / 2 by digit arithmetic (the midpoint of two adjacent f64 is not an f64)
    let mut dummy = Rng::new(0);
    let split = |x: f64, r: &mut Rng| -> (Vec<u8>, usize) {
        let t = exact_decimal_f64(x.abs(), r);
        let (d, e) = t.split_once("e-").unwrap();
        (d.bytes().map(|c| c - b'0').collect(), e.parse::<usize>().unwrap())
    };
    let (mut da, sa) = split(a, &mut dummy);
    let (mut db, sb) = split(b, &mut dummy);
    let sh = sa.max(sb);
    da.extend(std::iter::repeat(0).take(sh - sa));
    db.extend(std::iter::repeat(0).take(sh - sb));
    let n = da.len().max(db.len());
    while da.len() < n {
        da.insert(0, 0);
    }
    while db.len() < n {
        db.insert(0, 0);
    }
    // sum, then times 5 (and one more decimal place) = divided by two
    let mut sum = vec![0u8; n + 1];
    let mut carry = 0u8;
    for i in (0..n).rev() {
        let v = da[i] + db[i] + carry;
        sum[i + 1] = v % 10;
        carry = v / 10;
    }
    sum[0] = carry;
    let mut carry = 0u8;
    for d in sum.iter_mut().rev() {
        let v = *d * 5 + carry;
        *d = v % 10;
        carry = v / 10;
    }
    if carry > 0 {
        sum.insert(0, carry);
    }
    let exp = format!("{}{}e-{}", if a < 0.0 { "-" } else { "" }, sum.iter().map(|d| (b'0' + d) as char).collect::<String>(), sh + 1);
    match (parse_nrf(lit.as_bytes()), parse_nrf(exp.as_bytes())) {
        (Some(x), Some(m)) => {
            if x == m {
                return true;
            }
            let (lx, lm) = (x.digits.len() as i64 + x.exp10, m.digits.len() as i64 + m.exp10);
            lx == lm && x.digits.len() >= 17 && m.digits.len() >= 17 && x.digits[..17] == m.digits[..17]
        }
        _ => false,
    }
}

/// how a result that is not the correctly rounded one relates to it (part of the signature: specific findings stay specific)
fn misround_kind(lit: &str, got: f64, want: f64, got_bits: u64, want_bits: u64) -> &'static str {
    let sig_digits = parse_nrf(lit.as_bytes()).map_or(0, |d| d.digits.len());
    if got.is_finite() && want.is_finite() && (got_bits as i128 - want_bits as i128).abs() == 1 && sig_digits >= 20 && near_boundary(lit, got, want) {
        "long-literal-at-or-near-a-rounding-boundary-off-by-one-ulp"
    } else {
        "not-a-tie"
    }
}

fn check_float(ctx: &mut Ctx, lit: &str) {
    bump(ctx, 2);
    let t = Token::DecimalNumericProgramData(lit.as_bytes());
    // reference: Rust core's correctly rounded decimal-to-binary conversion (independent of lexical-core)
    let w64: f64 = match lit.parse() {
        Ok(v) => v,
        Err(_) => {
            ctx.count("SELFCHECK-FAILED.reference-cannot-parse-literal");
            return;
        }
    };
    let w32: f32 = lit.parse().unwrap();
    let class = |x: f64| if x == 0.0 { "zero" } else if x.is_infinite() { "overflow-to-inf" } else if x.abs() < f64::MIN_POSITIVE { "subnormal" } else { "normal" };
    ctx.count(&format!("f64.{}", class(w64)));
    let class32 = if w32 == 0.0 { "zero" } else if w32.is_infinite() { "overflow-to-inf" } else if w32.abs() < f32::MIN_POSITIVE { "subnormal" } else { "normal" };
    ctx.count(&format!("f32.{}", class32));
    if ctx.index % 80 == 0 && lit.len() < 200 && events_enabled() {
        let b64 = f64::try_from(t).map(|g| format!("\"{:016x}\"", g.to_bits())).unwrap_or_else(|e| e.get_code().to_string());
        let b32 = f32::try_from(t).map(|g| format!("\"{:08x}\"", g.to_bits())).unwrap_or_else(|e| e.get_code().to_string());
        log_event(&format!("{{\"k\":\"float\",\"lit\":{},\"f64\":{},\"f32\":{}}}", jstr(lit), b64, b32));
    }
    match f64::try_from(t) {
        Ok(g) if g.to_bits() == w64.to_bits() => {}
        Ok(g) if misround_kind(lit, g, w64, g.to_bits(), w64.to_bits()) != "not-a-tie" => ctx.violation(&format!("C08:f64-{}{}", misround_kind(lit, g, w64, g.to_bits(), w64.to_bits()), if cfg!(feature = "compact") { ":compact-feature" } else { "" }), jobj(&[("literal", jstr(lit)), ("library_bits", jstr(&format!("{:#018x}", g.to_bits()))), ("reference_bits", jstr(&format!("{:#018x}", w64.to_bits())))])),
        Ok(g) => ctx.violation(&format!("C08:f64-not-correctly-rounded:{}", class(w64)), jobj(&[("literal", jstr(lit)), ("library_bits", jstr(&format!("{:#018x} ({:e})", g.to_bits(), g))), ("reference_bits", jstr(&format!("{:#018x} ({:e})", w64.to_bits(), w64)))])),
        Err(e) => ctx.violation(&format!("C08:f64-literal-rejected:{}:{}", e.get_code(), class(w64)), jobj(&[("literal", jstr(lit))])),
    }
    match f32::try_from(t) {
        Ok(g) if g.to_bits() == w32.to_bits() => {}
        Ok(g) if misround_kind(lit, g as f64, w32 as f64, g.to_bits() as u64, w32.to_bits() as u64) != "not-a-tie" => ctx.violation(&format!("C08:f32-{}{}", misround_kind(lit, g as f64, w32 as f64, g.to_bits() as u64, w32.to_bits() as u64), if cfg!(feature = "compact") { ":compact-feature" } else { "" }), jobj(&[("literal", jstr(lit)), ("library_bits", jstr(&format!("{:#010x}", g.to_bits()))), ("reference_bits", jstr(&format!("{:#010x}", w32.to_bits())))])),
        Ok(g) => ctx.violation(&format!("C08:f32-not-correctly-rounded:{}", class32), jobj(&[("literal", jstr(lit)), ("library_bits", jstr(&format!("{:#010x} ({:e})", g.to_bits(), g))), ("reference_bits", jstr(&format!("{:#010x} ({:e})", w32.to_bits(), w32)))])),
        Err(e) => ctx.violation(&format!("C08:f32-literal-rejected:{}:{}", e.get_code(), class32), jobj(&[("literal", jstr(lit))])),
    }
}

fn check_bool_numeric(ctx: &mut Ctx, lit: &str) {
    bump(ctx, 1);
    let d = match parse_nrf(lit.as_bytes()) {
        Some(d) => d,
        None => return,
    };
    let h = d.cmp_half();
    let r = bool::try_from(Token::DecimalNumericProgramData(lit.as_bytes()));
    if ctx.index % 60 == 0 && lit.len() < 200 && events_enabled() {
        let res = match &r {
            Ok(v) => format!("\"ok\":{}", v),
            Err(e) => format!("\"err\":{}", e.get_code()),
        };
        log_event(&format!("{{\"k\":\"bool\",\"lit\":{},{}}}", jstr(lit), res));
    }
    ctx.count(&format!("bool.numeric.{}", if h < 0 { "rounds-to-zero" } else if h == 0 { "exactly-half" } else { "rounds-to-nonzero" }));
    let ok = match (&r, h) {
        (Ok(false), x) if x <= 0 => true,
        (Ok(true), x) if x >= 0 => true,
        _ => false,
    };
    if !ok {
        let mag = if d.is_zero() { "zero" } else if h < 0 { "below-half" } else if d.digits.len() as i64 + d.exp10 > 19 { "beyond-64-bit" } else { "ordinary" };
        ctx.violation(&format!("C08:bool-from-numeric:{}:{}", mag, match &r { Ok(b) => b.to_string(), Err(e) => e.get_code().to_string() }), jobj(&[("literal", jstr(lit)), ("result", jstr(&format!("{:?}", r.as_ref().map_err(|e| e.get_code()))))]));
    }
}

/// A handler reading a long list of float / boolean parameters from one unit (a waveform download): every element converts
/// to its own value wherever it stands in the list - positions around the limits of 8-, 12- and 16-bit counters.
fn long_lists(cfg: &Cfg, rep: &mut Report) {
    if cfg.tiny {
        return;
    }
    run_cases(cfg, "long-lists", cfg.n(1, 400, 4_000), rep, |rng, ctx| {
        bump(ctx, 1);
        let n = match rng.usize(8) {
            0 | 1 => 250 + rng.usize(12),
            2 => 4090 + rng.usize(12),
            3 => 65_530 + rng.usize(12),
            4 => 300 + rng.usize(700),
            _ => 2 + rng.usize(300),
        };
        let as_bool = rng.chance(1, 4);
        let mut text: Vec<u8> = Vec::new();
        let mut want_f: Vec<f64> = Vec::with_capacity(n);
        for i in 0..n {
            if i > 0 {
                text.extend_from_slice(*rng.pick(&[&b","[..], b",", b", ", b" ,"]));
            }
            // values exactly representable, so that the expected value needs no rounding argument: k/8 and small exponents
            let k = rng.range(-4000, 4000);
            let v = k as f64 / 8.0;
            let lit = match rng.usize(3) {
                0 => format!("{}", v),
                1 => format!("{}E-3", k * 125),
                _ => format!("{:+}", v),
            };
            text.extend_from_slice(lit.as_bytes());
            want_f.push(v);
        }
        ctx.nontrivial(hash_bytes(&text));
        ctx.count(&format!("long-lists.elements.{}", if n < 250 { "<250" } else if n < 262 { "~2^8" } else if n < 1100 { "300-1000" } else if n < 5000 { "~2^12" } else { "~2^16" }));
        let mut toks = Tokenizer::new_params(&text).peekable();
        let mut p = scpi::parser::parameters::Parameters::with(&mut toks);
        // first element required, the rest optional until exhausted (the idiom for a list of unknown length)
        let mut i = 0usize;
        loop {
            let got: Result<Option<f64>, scpi::error::Error> = if as_bool {
                let r: Result<Option<bool>, _> = if i == 0 { p.next_data::<bool>().map(Some) } else { p.next_optional_data::<bool>() };
                r.map(|o| o.map(|b| if b { 1.0 } else { 0.0 }))
            } else if i == 0 {
                p.next_data::<f64>().map(Some)
            } else {
                p.next_optional_data::<f64>()
            };
            match got {
                Ok(None) => break,
                Ok(Some(v)) => {
                    let w = if i < n { want_f[i] } else { f64::NAN };
                    let w = if as_bool { if w.round() != 0.0 { 1.0 } else { 0.0 } } else { w };
                    if i >= n || v.to_bits() != w.to_bits() && !(v == 0.0 && w == 0.0 && !as_bool && v.is_sign_negative() == w.is_sign_negative()) {
                        ctx.violation("C08:long-list:element-converts-to-another-value", jobj(&[("elements", n.to_string()), ("position", i.to_string()), ("kind", jstr(if as_bool { "bool" } else { "f64" })), ("observed", jstr(&format!("{:?}", v))), ("expected", jstr(&format!("{:?}", w)))]));
                        return;
                    }
                    i += 1;
                }
                Err(e) => {
                    ctx.violation("C08:long-list:element-rejected", jobj(&[("elements", n.to_string()), ("position", i.to_string()), ("kind", jstr(if as_bool { "bool" } else { "f64" })), ("error", e.get_code().to_string())]));
                    return;
                }
            }
        }
        if i != n {
            ctx.violation("C08:long-list:elements-missing", jobj(&[("elements", n.to_string()), ("obtained", i.to_string())]));
            return;
        }
        ctx.add("long-lists.elements-converted", n as u64);
    });
}

pub fn run(cfg: &Cfg, rep: &mut Report) {
    long_lists(cfg, rep);
    let n = cfg.n(100, 7_500_000, 800_000_000);
    run_cases(cfg, "floats", n, rep, |rng, ctx| {
        let lit = float_literal(rng);
        ctx.nontrivial(hash_str(&lit));
        check_float(ctx, &lit);
        if ctx.index % 10007 == 0 {
            ctx.sample(|| jobj(&[("float_literal", jstr(&if lit.len() > 120 { format!("{}...({} chars)", &lit[..120], lit.len()) } else { lit.clone() }))]));
        }
        // through the real lexer: the literal must arrive unmodified as one decimal element
        if ctx.index % 4 == 0 {
            let toks: Vec<_> = Tokenizer::new_params(lit.as_bytes()).collect();
            match toks.as_slice() {
                [Ok(Token::DecimalNumericProgramData(s))] if *s == lit.as_bytes() => ctx.count("lexer.literal-passed-through"),
                other => ctx.violation("C08:literal-not-lexed-as-one-decimal-element", jobj(&[("literal", jstr(&lit)), ("tokens", jstr(&format!("{:?}", other)))])),
            }
        }
    });
    // Spellings the generator grammar does not contain because 488.2 support for them is optional in this library (white
    // space around the exponent mark, 7.7.2.2): whatever the lexer hands out as ONE decimal element is a "decimal literal
    // the lexer accepts" and must convert to the value it denotes; if the lexer refuses or splits it there is no verdict.
    let n = cfg.n(20, 400_000, 40_000_000);
    run_cases(cfg, "spaced-exponent", n, rep, |rng, ctx| {
        bump(ctx, 1);
        let plain = loop {
            let l = float_literal(rng);
            if l.len() < 60 && l.bytes().any(|c| c == b'e' || c == b'E') {
                break l;
            }
        };
        let epos = plain.bytes().position(|c| c == b'e' || c == b'E').unwrap();
        let ws = |rng: &mut Rng| -> String { (0..1 + rng.usize(2)).map(|_| if rng.bool() { ' ' } else { '\t' }).collect() };
        let mut spaced = String::new();
        spaced.push_str(&plain[..epos]);
        let where_ = rng.usize(3);
        if where_ != 0 {
            spaced.push_str(&ws(rng));
        }
        spaced.push_str(&plain[epos..epos + 1]);
        if where_ != 1 {
            spaced.push_str(&ws(rng));
        }
        spaced.push_str(&plain[epos + 1..]);
        ctx.nontrivial(hash_str(&spaced));
        // lex up to the first error (never past it)
        let mut tz = Tokenizer::new_params(spaced.as_bytes());
        let first = tz.next();
        let one_element = match first {
            Some(Ok(Token::DecimalNumericProgramData(s))) if s == spaced.as_bytes() => matches!(tz.next(), None),
            _ => false,
        };
        if !one_element {
            ctx.count("spaced-exponent.not-one-decimal-element(no verdict)");
            return;
        }
        ctx.count("spaced-exponent.accepted-by-lexer");
        let t = Token::DecimalNumericProgramData(spaced.as_bytes());
        let (w64, w32): (f64, f32) = (plain.parse().unwrap(), plain.parse().unwrap());
        let g64 = f64::try_from(t);
        let g32 = f32::try_from(t);
        if !matches!(g64, Ok(g) if g.to_bits() == w64.to_bits()) || !matches!(g32, Ok(g) if g.to_bits() == w32.to_bits()) {
            ctx.violation("C08:lexer-accepted-spaced-exponent-not-correctly-rounded", jobj(&[("literal", jstr(&spaced)), ("f64", jstr(&format!("{:?}", g64.map(|g| g.to_bits()).map_err(|e| e.get_code())))), ("f32", jstr(&format!("{:?}", g32.map(|g| g.to_bits()).map_err(|e| e.get_code())))), ("reference_f64_bits", w64.to_bits().to_string()), ("reference_f32_bits", w32.to_bits().to_string())]));
        }
        if let Some(d) = parse_nrf(plain.as_bytes()) {
            let h = d.cmp_half();
            let ok = match (bool::try_from(t), h) {
                (Ok(false), x) if x <= 0 => true,
                (Ok(true), x) if x >= 0 => true,
                _ => false,
            };
            if !ok {
                ctx.violation("C08:lexer-accepted-spaced-exponent:bool-wrong", jobj(&[("literal", jstr(&spaced))]));
            }
        }
    });
    // the same acceptance table through the typed accessors of `Parameters` (required and optional): an element of a type the
    // target does not accept is an error there too - never "absent", never a value
    run_cases(cfg, "matrix-through-accessors", cfg.n(10, 100_000, 10_000_000), rep, |rng, ctx| {
        use scpi::parser::parameters::Parameters;
        let text: &[u8] = *rng.pick(&[&b"'1.5'"[..], b"\"ON\"", b"#H10", b"(1)", b"#13abc", b"1.5", b"12", b"ABC", b"ON", b"MAX", b"1 V", b"2.5 KHZ"]);
        macro_rules! acc {
            ($t:ty, $name:literal) => {{
                bump(ctx, 1);
                let first = match Tokenizer::new_params(text).next() {
                    Some(Ok(t)) => t,
                    _ => return,
                };
                let direct = <$t>::try_from(first).is_ok();
                let mut a = Tokenizer::new_params(text).peekable();
                let req = Parameters::with(&mut a).next_data::<$t>();
                let mut b = Tokenizer::new_params(text).peekable();
                let opt = Parameters::with(&mut b).next_optional_data::<$t>();
                ctx.nontrivial(mix(hash_bytes(text), hash_str($name)));
                ctx.count(if direct { "accessors.accepted" } else { "accessors.refused" });
                let ok = req.is_ok() == direct && match &opt { Ok(Some(_)) => direct, Ok(None) => false, Err(_) => !direct };
                if !ok {
                    ctx.violation(&format!("C08:accessor-disagrees-with-the-conversion:{}", $name), jobj(&[("data", jbytes(text)), ("conversion_accepts", direct.to_string()), ("next_data", jstr(&format!("{:?}", req.as_ref().map(|_| ()).map_err(|e| e.get_code())))), ("next_optional_data", jstr(&format!("{:?}", opt.as_ref().map(|o| o.is_some()).map_err(|e| e.get_code()))))]));
                }
            }};
        }
        match ctx.index % 8 {
            0 => acc!(f32, "f32"),
            1 => acc!(f64, "f64"),
            2 => acc!(bool, "bool"),
            3 => acc!(u16, "u16"),
            4 => acc!(i64, "i64"),
            5 => acc!(&[u8], "&[u8]"),
            6 => acc!(&str, "&str"),
            _ => acc!(Character, "Character"),
        }
    });
    let n = cfg.n(50, 1_500_000, 240_000_000);
    run_cases(cfg, "bool", n, rep, |rng, ctx| {
        let lit = match rng.usize(8) {
            0 => rng.pick(ZEROS).to_string(),
            1 => rng.pick(&["0.5", "-0.5", ".5", "5e-1", "0.50", "0.49999999999999999999", "0.500000000000000000001", "1", "0", "-1", "1e999", "123456789012345678901234567890", "-1e30", "1e-999", "0.4", "0.6", "2", "255", "1e19", "18446744073709551616"]).to_string(),
            2 => with_exponent(rng),
            _ => {
                let a = rng.range(-2, 2) as i128;
                let p = around(rng, a);
                respell(rng, &p)
            }
        };
        ctx.nontrivial(hash_str(&lit));
        check_bool_numeric(ctx, &lit);
        // ON / OFF in any case; every other character datum is rejected
        let (w, want): (&[u8], Option<bool>) = *rng.pick(&[(&b"ON"[..], Some(true)), (b"OFF", Some(false)), (b"O", None), (b"ONN", None), (b"OF", None), (b"TRUE", None), (b"YES", None), (b"ON1", None), (b"MAX", None)]);
        let s = random_case(rng, w);
        let r = bool::try_from(Token::CharacterProgramData(&s));
        bump(ctx, 1);
        ctx.count("bool.keyword");
        let ok = match (want, &r) {
            (Some(b), Ok(x)) => b == *x,
            (None, Err(_)) => true,
            _ => false,
        };
        if !ok {
            ctx.violation(&format!("C08:bool-keyword:{}", if want.is_some() { "on-off-not-recognised" } else { "other-word-accepted" }), jobj(&[("word", jbytes(&s)), ("result", jstr(&format!("{:?}", r.as_ref().map_err(|e| e.get_code()))))]));
        }
    });
    // float keywords
    run_cases(cfg, "keywords", cfg.n(20, 300_000, 60_000_000), rep, |rng, ctx| {
        #[derive(Clone, Copy, PartialEq, Debug)]
        enum K {
            Inf,
            Ninf,
            Nan,
            Max,
            Min,
            No,
        }
        let (w, k): (&[u8], K) = *rng.pick(&[
            (&b"INF"[..], K::Inf), (b"INFinity", K::Inf), (b"NINF", K::Ninf), (b"NINFinity", K::Ninf), (b"NAN", K::Nan), (b"MAX", K::Max), (b"MAXimum", K::Max), (b"MIN", K::Min), (b"MINimum", K::Min),
            (b"INFI", K::No), (b"INFINIT", K::No), (b"NIN", K::No), (b"NA", K::No), (b"NANN", K::No), (b"MAXIM", K::No), (b"INFINITY1", K::No), (b"MAX1", K::No), (b"MIN1", K::No), (b"INF1", K::No), (b"NINF1", K::No), (b"NAN1", K::No), (b"MAXIMUM1", K::No), (b"MAX2", K::No), (b"MAX01", K::No), (b"DEF", K::No), (b"ON", K::No), (b"PINF", K::No), (b"INFINITYX", K::No),
        ]);
        let s = random_case(rng, w);
        bump(ctx, 2);
        ctx.count(&format!("float.keyword.{:?}", k));
        ctx.nontrivial(hash_bytes(&s));
        let t = Token::CharacterProgramData(&s);
        let chk = |ctx: &mut Ctx, name: &str, r: Result<f64, Error>, max: f64, min: f64| {
            let ok = match (&r, k) {
                (Ok(v), K::Inf) => *v == f64::INFINITY,
                (Ok(v), K::Ninf) => *v == f64::NEG_INFINITY,
                (Ok(v), K::Nan) => v.is_nan(),
                (Ok(v), K::Max) => *v == max,
                (Ok(v), K::Min) => *v == min,
                // an unknown word is rejected; whether that counts as a type fault (-104, command error) or as a
                // value outside the allowed set (execution error) is not fixed by the statement
                (Err(_), K::No) => true,
                _ => false,
            };
            if !ok {
                ctx.violation(&format!("C08:float-keyword:{:?}:{}", k, name), jobj(&[("word", jbytes(&s)), ("result", jstr(&format!("{:?}", r.as_ref().map_err(|e| e.get_code()))))]));
            }
        };
        chk(ctx, "f64", f64::try_from(t), f64::MAX, f64::MIN);
        chk(ctx, "f32", f32::try_from(t).map(|v| v as f64), f32::MAX as f64, f32::MIN as f64);
    });
    // target x element-kind matrix
    run_cases(cfg, "matrix", cfg.n(10, 200_000, 40_000_000), rep, |rng, ctx| {
        let words: [&[u8]; 4] = [b"POTATO", b"ON", b"MAX", b"NAN"];
        let strs: [&[u8]; 4] = [b"12", b"abc", b"", b"\xff\xfe"];
        let w = *rng.pick(&words);
        let st = *rng.pick(&strs);
        let toks: [(&str, Token); 7] = [
            ("chardata", Token::CharacterProgramData(w)),
            ("decimal", Token::DecimalNumericProgramData(b"12.5")),
            // a numeric element with a suffix part (whatever the suffix is, down to an empty one left over after an amplitude
            // qualifier was split off) is not a plain numeric
            ("suffixed", Token::DecimalNumericSuffixProgramData(b"12", *rng.pick(&[&b"V"[..], b"S", b"KHZ", b""]))),
            ("nondecimal", Token::NonDecimalNumericProgramData(rng.next() >> rng.usize(64))),
            ("string", Token::StringProgramData(st)),
            ("block", Token::ArbitraryBlockData(st)),
            ("expression", Token::ExpressionProgramData(b"1,2")),
        ];
        for (k, t) in toks.iter() {
            macro_rules! cell {
                ($t:ty, $name:literal, $accept:expr, $noverdict:expr, $payload:expr, $must_ok:expr) => {{
                    bump(ctx, 1);
                    let r = <$t>::try_from(*t);
                    let accept: &[&str] = &$accept;
                    let nov: &[&str] = &$noverdict;
                    if nov.contains(k) {
                        ctx.count("matrix.no-verdict");
                    } else if accept.contains(k) {
                        ctx.count("matrix.accepting-cell");
                        // payload fidelity for the pass-through types
                        let f: &dyn Fn(&$t) -> bool = &$payload;
                        match &r {
                            Ok(v) if f(v) => {}
                            Ok(_) => ctx.violation(&format!("C08:matrix:{}<-{}:payload-altered", $name, k), jobj(&[("token", jstr(&format!("{:?}", t)))])),
                            Err(e) => {
                                // a value fault of an accepted kind is fine (e.g. POTATO for a number, invalid utf8);
                                // pass-through targets have no value faults: their documented element kind must convert
                                if $must_ok {
                                    ctx.violation(&format!("C08:matrix:{}<-{}:documented-element-kind-rejected:{}", $name, k, e.get_code()), jobj(&[("token", jstr(&format!("{:?}", t)))]));
                                }
                                ctx.count("matrix.accepted-kind-value-rejected");
                            }
                        }
                    } else {
                        ctx.count("matrix.rejecting-cell");
                        ctx.nontrivial(mix(hash_str($name), hash_str(k)));
                        match &r {
                            Err(e) if is_command_error(e.get_code()) => {}
                            Err(e) => ctx.violation(&format!("C08:matrix:{}<-{}:not-a-command-error:{}", $name, k, e.get_code()), jobj(&[("token", jstr(&format!("{:?}", t)))])),
                            Ok(_) => ctx.violation(&format!("C08:matrix:{}<-{}:value-fabricated-from-unaccepted-element", $name, k), jobj(&[("token", jstr(&format!("{:?}", t)))])),
                        }
                    }
                }};
            }
            cell!(f32, "f32", ["decimal", "chardata"], ["nondecimal"], |_| true, *k == "decimal");
            cell!(f64, "f64", ["decimal", "chardata"], ["nondecimal"], |_| true, *k == "decimal");
            cell!(bool, "bool", ["decimal", "chardata"], ["nondecimal"], |_| true, *k == "decimal" || (*k == "chardata" && w == b"ON"));
            cell!(&[u8], "bytes", ["string"], [], |v| *v == st, true);
            cell!(&str, "str", ["string", "block"], [], |v| v.as_bytes() == st, std::str::from_utf8(st).is_ok());
            cell!(Arbitrary, "Arbitrary", ["block"], [], |v| v.0 == st, true);
            cell!(Character, "Character", ["chardata"], [], |v| v.0 == w, true);
            cell!(Expression, "Expression", ["expression"], [], |v| v.0 == b"1,2", true);
            cell!(u16, "u16", ["decimal", "chardata", "nondecimal"], [], |_| true, *k == "decimal" || (*k == "chardata" && w == b"MAX"));
            cell!(i64, "i64", ["decimal", "chardata", "nondecimal"], [], |_| true, *k == "decimal" || (*k == "chardata" && w == b"MAX"));
        }
        // &str from a string / block that is not UTF-8 must be an error, not a lossy value
        let r = <&str>::try_from(Token::StringProgramData(b"\xff\xfe"));
        if r.is_ok() {
            ctx.violation("C08:str-from-invalid-utf8-accepted", jobj(&[]));
        }
    });
}
