//! C18 — unit suffixes scale by their SCPI multiplier; bare numbers are in the base unit; unknown
//! suffixes and non-numeric elements are rejected; PK/PP/RMS and DB* classify without altering
//! the number.
use crate::fw::*;
use crate::gen::msg::gen_nrf;
use crate::refm::suffix::*;
use scpi::error::Error;
use scpi::parser::suffix::{Amplitude, Db};
use scpi::parser::tokenizer::{Token, Tokenizer};
use scpi::units::uom::si::{f32 as q32, f64 as q64};

struct Quantity {
    name: &'static str,
    table: &'static [Suf],
    /// bare numbers: factor/pre_offset of the quantity's base unit; `None` = either K or CEL accepted (temperature)
    bare: Option<(f64, f64)>,
    conv32: fn(Token) -> Result<f64, Error>,
    conv64: fn(Token) -> Result<f64, Error>,
    /// the same element received as a SCPI <numeric_value> of that quantity (NumericValue<Q>): Ok(None) = a keyword
    nv64: fn(Token) -> Result<Option<f64>, Error>,
}

macro_rules! qty {
    ($name:literal, $table:expr, $bare:expr, $q:ident) => {
        Quantity { name: $name, table: $table, bare: $bare, conv32: |t| q32::$q::try_from(t).map(|v| v.value as f64), conv64: |t| q64::$q::try_from(t).map(|v| v.value), nv64: |t| scpi_contrib::scpi1999::NumericValue::<q64::$q>::try_from(t).map(|v| match v { scpi_contrib::scpi1999::NumericValue::Value(x) => Some(x.value), _ => None }) }
    };
}

const QUANTITIES: &[Quantity] = &[
    qty!("Angle", ANGLE, Some((1.0, 0.0)), Angle),
    qty!("Capacitance", CAPACITANCE, Some((1.0, 0.0)), Capacitance),
    qty!("ElectricCharge", CHARGE, Some((1.0, 0.0)), ElectricCharge),
    qty!("ElectricCurrent", CURRENT, Some((1.0, 0.0)), ElectricCurrent),
    qty!("ElectricPotential", POTENTIAL, Some((1.0, 0.0)), ElectricPotential),
    qty!("ElectricalConductance", CONDUCTANCE, Some((1.0, 0.0)), ElectricalConductance),
    qty!("ElectricalResistance", RESISTANCE, Some((1.0, 0.0)), ElectricalResistance),
    qty!("Energy", ENERGY, Some((1.0, 0.0)), Energy),
    qty!("Inductance", INDUCTANCE, Some((1.0, 0.0)), Inductance),
    qty!("Power", POWER, Some((1.0, 0.0)), Power),
    qty!("Ratio", RATIO, Some((1.0, 0.0)), Ratio),
    qty!("ThermodynamicTemperature", TEMPERATURE, None, ThermodynamicTemperature),
    qty!("Time", TIME, Some((1.0, 0.0)), Time),
    qty!("Frequency", FREQUENCY, Some((1.0, 0.0)), Frequency),
];

fn close(got: f64, x: f64, factor: f64, pre: f64, rel: f64, extra_rel: f64) -> bool {
    let want = (x + pre) * factor;
    // outside the comfortably normal range of the storage type (f32: 1e-30..1e30, f64: 1e-290..1e290)
    // rounding to subnormals / overflow dominates: no verdict there
    // (a value taken in the base unit itself involves no scaling arithmetic: judged up to the largest finite f32)
    let (lo, hi) = if rel > 1e-9 { (1e-30, if factor == 1.0 && pre == 0.0 { 3.0e38 } else { 1e30 }) } else { (1e-290, 1e290) };
    if !want.is_finite() || (x != 0.0 && (x.abs() < lo || x.abs() > hi)) || (want != 0.0 && (want.abs() < lo || want.abs() > hi)) {
        return true;
    }
    let scale = want.abs().max((x.abs() + pre.abs()) * factor.abs());
    (got - want).abs() <= (rel + extra_rel) * scale + f64::MIN_POSITIVE
}

fn case_pattern(rng: &mut Rng, s: &str) -> Vec<u8> {
    s.bytes().map(|c| if rng.bool() { c.to_ascii_lowercase() } else { c }).collect()
}

pub fn run(cfg: &Cfg, rep: &mut Report) {
    other_base_units(cfg, rep);
    // ---- defined suffixes, all case patterns, many literals; bare numbers
    let n = cfg.n(100, 8_000_000, 800_000_000);
    run_cases(cfg, "defined", n, rep, |rng, ctx| {
        let q = &QUANTITIES[(ctx.index % QUANTITIES.len() as u64) as usize];
        // now and then one of the numbers SCPI uses as response sentinels: as parameters they are ordinary values
        let lit = if rng.chance(1, 150) { rng.pick(&[&b"9.9E37"[..], b"9.9e+37", b"-9.9E37", b"9.91E37", b"9.91e+37", b"99e36", b"-991E35", b"9.8e37"]).to_vec() } else { gen_nrf(rng) };
        let x: f64 = std::str::from_utf8(&lit).unwrap().parse().unwrap();
        let x32: f32 = std::str::from_utf8(&lit).unwrap().parse().unwrap();
        if !x32.is_finite() {
            return;
        }
        bump(ctx, 2);
        let bare = rng.chance(1, 8);
        let su = rng.pick(q.table);
        let suffix = case_pattern(rng, su.s);
        let tok = if bare { Token::DecimalNumericProgramData(&lit) } else { Token::DecimalNumericSuffixProgramData(&lit, &suffix) };
        ctx.count(&format!("{}.{}", q.name, if bare { "(bare)" } else { su.s }));
        ctx.nontrivial(mix(hash_bytes(&suffix), mix(hash_bytes(&lit), bare as u64 + 2 * ctx.index % 14)));
        for (w, r, rel) in [("f32", (q.conv32)(tok), 3e-6), ("f64", (q.conv64)(tok), 1e-12)] {
            let detail = |r: &Result<f64, Error>| jobj(&[("quantity", jstr(q.name)), ("storage", jstr(w)), ("literal", jbytes(&lit)), ("suffix", jbytes(if bare { b"" } else { &suffix })), ("result_in_SI_unit", jstr(&format!("{:?}", r.as_ref().map_err(|e| e.get_code())))), ("expected", jstr(&format!("({} + {}) * {}", x, su.pre_offset, su.factor)))]);
            match &r {
                Err(_) => ctx.violation(&format!("C18:{}:{}:defined-suffix-rejected", q.name, if bare { "bare-number" } else { su.s }), detail(&r)),
                Ok(got) => {
                    let ok = if bare {
                        match q.bare {
                            Some((f, p)) => close(*got, x, f, p, rel, 0.0),
                            None => close(*got, x, 1.0, 0.0, rel, 0.0) || close(*got, x, 1.0, 273.15, rel, 0.0),
                        }
                    } else {
                        close(*got, x, su.factor, su.pre_offset, rel, su.rel_tol) || su.alt_factor.map_or(false, |f| close(*got, x, f, su.pre_offset, rel, su.rel_tol))
                    };
                    if !ok {
                        ctx.violation(&format!("C18:{}:{}:wrong-scale", q.name, if bare { "bare-number" } else { su.s }), detail(&r));
                    }
                }
            }
        }
        if ctx.index % 50_021 == 0 {
            ctx.sample(|| jobj(&[("quantity", jstr(q.name)), ("literal", jbytes(&lit)), ("suffix", jbytes(&suffix))]));
        }
        // through the real lexer (number and suffix split by it)
        if ctx.index % 5 == 0 && !bare {
            let mut text = lit.clone();
            if rng.bool() || matches!(suffix[0], b'E' | b'e') {
                // any white space the grammar allows between number and suffix
                for _ in 0..1 + rng.usize(2) {
                    text.push(*rng.pick(b" \t\r\x0c  "));
                }
            }
            text.extend_from_slice(&suffix);
            let toks: Vec<_> = Tokenizer::new_params(&text).collect();
            match toks.as_slice() {
                [Ok(t @ Token::DecimalNumericSuffixProgramData(a, b))] if *a == &lit[..] && *b == &suffix[..] => {
                    let r1 = (q.conv64)(*t);
                    let r2 = (q.conv64)(tok);
                    // a <numeric_value> parameter of the quantity "otherwise converts as its underlying type": same value, same error
                    let r3 = (q.nv64)(*t);
                    ctx.count("via-numeric_value-wrapper");
                    let same = match (&r1, &r3) {
                        (Ok(a), Ok(Some(b))) => a.to_bits() == b.to_bits(),
                        (Err(a), Err(b)) => a.get_code() == b.get_code(),
                        _ => false,
                    };
                    if !same {
                        ctx.violation(&format!("C18:{}:numeric_value-of-the-quantity-converts-differently", q.name), jobj(&[("text", jbytes(&text)), ("quantity", jstr(&format!("{:?}", r1.as_ref().map_err(|e| e.get_code())))), ("numeric_value", jstr(&format!("{:?}", r3.as_ref().map_err(|e| e.get_code()))))]));
                    }
                    if r1.as_ref().ok() != r2.as_ref().ok() {
                        ctx.violation("C18:differs-through-lexer", jobj(&[("text", jbytes(&text))]));
                    }
                    ctx.count("via-lexer");
                }
                other => ctx.violation("C18:lexer-does-not-split-number-and-suffix", jobj(&[("text", jbytes(&text)), ("tokens", jstr(&format!("{:?}", other)))])),
            }
        }
    });
    // ---- undefined suffixes and non-numeric elements must be rejected
    let n = cfg.n(100, 4_800_000, 600_000_000);
    run_cases(cfg, "undefined", n, rep, |rng, ctx| {
        let q = &QUANTITIES[(ctx.index % QUANTITIES.len() as u64) as usize];
        let lit = gen_nrf(rng);
        let mut suffix: Vec<u8> = match rng.usize(7) {
            6 => {
                // compound forms composed across the tables: <unit>.<time unit>, <unit>/<unit> (A.S, W.S, V/S, OHM.M ...);
                // the few SCPI defines for the quantity are skipped below like any defined suffix
                let o = &QUANTITIES[rng.usize(QUANTITIES.len())];
                let a = rng.pick(o.table).s;
                let b: &str = *rng.pick(&["S", "HR", "MIN", "MS", "M", "HZ", "V", "A"]);
                let sep = if rng.chance(3, 4) { "." } else { "/" };
                case_pattern(rng, &format!("{}{}{}", a, sep, b))
            }
            0 => {
                let f: &str = *rng.pick(FOREIGN);
                case_pattern(rng, f)
            }
            4 => {
                // spellings people and vendors use that SCPI-99 does not define (unit names written out, plurals, degree
                // notations, SI symbols SCPI replaces, multiplier words)
                const ALIASES: &[&str] = &[
                    "DEGC", "DEGF", "DEGK", "DEGR", "C", "F", "KEL", "KELVIN", "CELSIUS", "CENT", "FAHR", "VOLT", "VOLTS", "VDC", "VAC", "VRMS", "VPK", "VPP", "AMP", "AMPS", "AMPERE", "ARMS", "HERTZ", "CPS", "RPM", "SEC", "SECS",
                    "SECOND", "MSEC", "USEC", "NSEC", "MINS", "HRS", "HOUR", "DAY", "DAYS", "YR", "OHMS", "MHO", "SIEMENS", "WATT", "WATTS", "FARAD", "HENRY", "JOULE", "JOULES", "COUL", "COULOMB", "DEGREE", "DEGREES", "DEGS", "RADIAN",
                    "RADS", "GRAD", "GON", "REV", "PERCENT", "PERC", "PCNT", "PPB", "PPT", "DBC", "DBFS", "NEPER", "NP", "MEG", "MEGA", "KILO", "MILLI", "MICRO", "NANO", "PICO", "K", "M", "U", "N", "P", "G", "T", "MA", "X", "E", "EXA",
                    "PK", "PP", "RMS", "PKPK", "DB", "DBM", "DBV", "DBW", "DBUV", "DBMV", "DBA", "DBUA", "BEL", "B", "H", "S", "V", "A", "W", "J", "HZ", "OHM", "SIE", "RAD", "DEG", "MNT", "PCT", "PPM", "CEL", "FAR",
                ];
                let a: &str = *rng.pick(ALIASES);
                case_pattern(rng, a)
            }
            5 => {
                // a suffix defined for some quantity (this one or another) with one letter added at either end
                let o = &QUANTITIES[rng.usize(QUANTITIES.len())];
                let mut s = rng.pick(o.table).s.as_bytes().to_vec();
                let c = b'A' + rng.usize(26) as u8;
                if rng.bool() { s.push(c) } else { s.insert(0, c) }
                case_pattern(rng, std::str::from_utf8(&s).unwrap())
            }
            1 => {
                // one-character near miss of a defined suffix
                let mut s = rng.pick(q.table).s.as_bytes().to_vec();
                match rng.usize(5) {
                    0 => s.push(b'A' + rng.usize(26) as u8),
                    1 => s.insert(0, *rng.pick(b"KMGUNPTZXA")),
                    // one character replaced by any other character a suffix may contain (letters, digits, . / -)
                    2 | 3 => {
                        let i = rng.usize(s.len());
                        let old = s[i];
                        let mut c = old;
                        while c.eq_ignore_ascii_case(&old) {
                            c = *rng.pick(b"ABCDEFGHIJKLMNOPQRSTUVWXYZabcdefghijklmnopqrstuvwxyz0123456789./-");
                        }
                        // the first character must stay a letter or `/` for the lexer to see a suffix at all
                        if i == 0 && !(c.is_ascii_alphabetic() || c == b'/') {
                            c = b'Q';
                        }
                        s[i] = c;
                    }
                    _ => {
                        if s.len() > 1 {
                            let i = rng.usize(s.len());
                            s.remove(i);
                        } else {
                            s[0] = b'A' + rng.usize(26) as u8;
                        }
                    }
                }
                s
            }
            _ => {
                let n = 1 + rng.usize(12);
                (0..n).map(|_| *rng.pick(b"ABCDEFGHIJKLMNOPQRSTUVWXYZ./-0123456789")).collect()
            }
        };
        suffix.truncate(12);
        // skip if it is actually defined for this quantity (any case)
        let up = suffix.to_ascii_uppercase();
        if q.table.iter().any(|s| s.s.as_bytes() == &up[..]) {
            return;
        }
        bump(ctx, 2);
        ctx.nontrivial(mix(hash_bytes(&suffix), ctx.index % 14));
        let tok = Token::DecimalNumericSuffixProgramData(&lit, &suffix);
        for (w, r) in [("f32", (q.conv32)(tok)), ("f64", (q.conv64)(tok))] {
            if let Ok(v) = r {
                ctx.violation(&format!("C18:{}:undefined-suffix-accepted", q.name), jobj(&[("quantity", jstr(q.name)), ("storage", jstr(w)), ("literal", jbytes(&lit)), ("suffix", jbytes(&suffix)), ("value", format!("\"{:e}\"", v))]));
            } else {
                ctx.count("undefined-suffix.rejected");
            }
        }
        // non-numeric elements
        let other = *rng.pick(&[Token::CharacterProgramData(b"V"), Token::StringProgramData(b"1V"), Token::ArbitraryBlockData(b"1"), Token::ExpressionProgramData(b"1"), Token::NonDecimalNumericProgramData(1), Token::CharacterProgramData(b"MAX")]);
        bump(ctx, 1);
        if let Ok(v) = (q.conv32)(other) {
            ctx.violation(&format!("C18:{}:non-numeric-element-accepted", q.name), jobj(&[("token", jstr(&format!("{:?}", other))), ("value", format!("\"{:e}\"", v))]));
        } else {
            ctx.count("non-numeric.rejected");
        }
    });
    // ---- amplitude and decibel classification
    let n = cfg.n(50, 1_800_000, 360_000_000);
    run_cases(cfg, "classify", n, rep, |rng, ctx| {
        let lit = gen_nrf(rng);
        let x32: f32 = std::str::from_utf8(&lit).unwrap().parse().unwrap();
        if !x32.is_finite() {
            return;
        }
        bump(ctx, 2);
        let unit = rng.pick(POTENTIAL);
        let (tail, want_class): (&str, i32) = *rng.pick(&[("", 0), ("PK", 1), ("PP", 2), ("RMS", 3)]);
        let suffix = case_pattern(rng, &format!("{}{}", unit.s, tail));
        ctx.nontrivial(mix(hash_bytes(&suffix), hash_bytes(&lit)));
        let tok = Token::DecimalNumericSuffixProgramData(&lit, &suffix);
        let r = Amplitude::<q32::ElectricPotential>::try_from(tok);
        let plain_suffix = case_pattern(rng, unit.s);
        let plain = q32::ElectricPotential::try_from(Token::DecimalNumericSuffixProgramData(&lit, &plain_suffix)).map(|v| v.value);
        let (class, val) = match &r {
            Ok(Amplitude::None(v)) => (0, Some(v.value)),
            Ok(Amplitude::Peak(v)) => (1, Some(v.value)),
            Ok(Amplitude::PeakToPeak(v)) => (2, Some(v.value)),
            Ok(Amplitude::Rms(v)) => (3, Some(v.value)),
            Err(_) => (-1, None),
        };
        ctx.count(&format!("amplitude.{}", ["none", "PK", "PP", "RMS"][want_class as usize]));
        if class != want_class || val.map(|v| v.to_bits()) != plain.as_ref().ok().map(|v| v.to_bits()) {
            ctx.violation(&format!("C18:amplitude:{}", if class != want_class { "wrong-classification" } else { "number-altered" }), jobj(&[("literal", jbytes(&lit)), ("suffix", jbytes(&suffix)), ("class", class.to_string()), ("value", jstr(&format!("{:?}", val))), ("plain_value", jstr(&format!("{:?}", plain.as_ref().map_err(|e| e.get_code())))) ]));
        }
        // decibel suffixes per quantity: logarithmic with the number untouched and the right reference; the
        // quantity's own suffixes linear; bare number unknown
        macro_rules! db_case {
            ($q:ty, $name:literal, $logs:expr, $lin:expr) => {{
                let logs: &[(&str, f32)] = &$logs;
                let lin: &[&str] = &$lin;
                let pick = rng.usize(logs.len() + lin.len() + 1);
                let (dbs, kind, want_ref): (&str, i32, f32) = if pick < logs.len() { (logs[pick].0, 2, logs[pick].1) } else if pick < logs.len() + lin.len() { (lin[pick - logs.len()], 1, 0.0) } else { ("", 0, 0.0) };
                let ds = case_pattern(rng, dbs);
                let tok = if dbs.is_empty() { Token::DecimalNumericProgramData(&lit) } else { Token::DecimalNumericSuffixProgramData(&lit, &ds) };
                let r = Db::<f32, $q>::try_from(tok);
                bump(ctx, 1);
                ctx.count(&format!("decibel.{}.{}", $name, ["bare", "linear", "logarithmic"][kind as usize]));
                let ok = match (&r, kind) {
                    (Ok(Db::None(v)), 0) => v.to_bits() == x32.to_bits(),
                    (Ok(Db::Linear(_)), 1) => true,
                    (Ok(Db::Logarithmic(v, refq)), 2) => v.to_bits() == x32.to_bits() && (refq.value - want_ref).abs() <= want_ref * 1e-5,
                    _ => false,
                };
                if !ok {
                    let got = match &r { Ok(Db::None(v)) => format!("None({})", v), Ok(Db::Linear(v)) => format!("Linear({})", v.value), Ok(Db::Logarithmic(v, q)) => format!("Logarithmic({}, reference {})", v, q.value), Err(e) => format!("Err({})", e.get_code()) };
                    ctx.violation(&format!("C18:decibel:{}:{}:{}", $name, ["bare", "linear", "logarithmic"][kind as usize], dbs), jobj(&[("literal", jbytes(&lit)), ("suffix", jbytes(&ds)), ("got", jstr(&got)), ("expected_reference_in_SI_unit", want_ref.to_string())]));
                }
                // a decibel suffix of another quantity is undefined here; so is DB glued to a linear suffix the quantity does
                // define (DBKV, DBNA, DBPCT ...) unless that happens to spell one of its decibel suffixes
                let glued = format!("DB{}", rng.pick(lin));
                let foreign: &str = if rng.chance(1, 3) { &glued } else { *rng.pick(&["DBV", "DBMV", "DBUV", "DBW", "DBMW", "DBM", "DBUW", "DBA", "DBMA", "DBUA", "DB", "DBX", "DBMM", "DBDBV", "DBVV", "DBK"]) };
                if !logs.iter().any(|l| l.0 == foreign) {
                    let fs = case_pattern(rng, foreign);
                    if Db::<f32, $q>::try_from(Token::DecimalNumericSuffixProgramData(&lit, &fs)).is_ok() {
                        ctx.violation(&format!("C18:decibel:{}:undefined-decibel-suffix-accepted", $name), jobj(&[("literal", jbytes(&lit)), ("suffix", jbytes(&fs))]));
                    }
                }
            }};
        }
        match ctx.index % 4 {
            0 => db_case!(q32::ElectricPotential, "ElectricPotential", [("DBV", 1.0), ("DBMV", 1e-3), ("DBUV", 1e-6)], ["V", "MV", "KV", "UV"]),
            1 => db_case!(q32::Power, "Power", [("DBW", 1.0), ("DBMW", 1e-3), ("DBM", 1e-3), ("DBUW", 1e-6)], ["W", "MW", "KW", "UW", "MAW"]),
            2 => db_case!(q32::ElectricCurrent, "ElectricCurrent", [("DBA", 1.0), ("DBMA", 1e-3), ("DBUA", 1e-6)], ["A", "MA", "UA", "KA", "NA"]),
            _ => db_case!(q32::Ratio, "Ratio", [("DB", 1.0)], ["PCT", "PPM"]),
        }
        // amplitude specifiers on another quantity
        {
            let unit = rng.pick(CURRENT);
            let (tail, want_class): (&str, i32) = *rng.pick(&[("", 0), ("PK", 1), ("PP", 2), ("RMS", 3)]);
            let suffix = case_pattern(rng, &format!("{}{}", unit.s, tail));
            let r = Amplitude::<q32::ElectricCurrent>::try_from(Token::DecimalNumericSuffixProgramData(&lit, &suffix));
            let plain_suffix = case_pattern(rng, unit.s);
            let plain = q32::ElectricCurrent::try_from(Token::DecimalNumericSuffixProgramData(&lit, &plain_suffix)).map(|v| v.value);
            let (class, val) = match &r {
                Ok(Amplitude::None(v)) => (0, Some(v.value)),
                Ok(Amplitude::Peak(v)) => (1, Some(v.value)),
                Ok(Amplitude::PeakToPeak(v)) => (2, Some(v.value)),
                Ok(Amplitude::Rms(v)) => (3, Some(v.value)),
                Err(_) => (-1, None),
            };
            bump(ctx, 1);
            if class != want_class || val.map(|v| v.to_bits()) != plain.as_ref().ok().map(|v| v.to_bits()) {
                ctx.violation(&format!("C18:amplitude:ElectricCurrent:{}", if class != want_class { "wrong-classification" } else { "number-altered" }), jobj(&[("literal", jbytes(&lit)), ("suffix", jbytes(&suffix)), ("class", class.to_string())]));
            }
        }
    });
}

// ---- the same conversions into quantities stored in another system of base units (the conversions are generic over the
// unit system `U`): a centimetre-gram-second flavoured system as in the uom documentation. The value is read back in the
// named unit (`get::<volt>()` ...), so the comparison is independent of how the quantity stores it.
mod cgs {
    ISQ!(uom::si, f32, (centimeter, gram, second, ampere, kelvin, mole, candela));
}

pub fn other_base_units(cfg: &Cfg, rep: &mut Report) {
    use scpi::units::uom::si::{electric_potential::volt, electrical_resistance::ohm, energy::joule, frequency::hertz, power::watt, time::second};
    let n = cfg.n(20, 300_000, 20_000_000);
    run_cases(cfg, "other-base-units", n, rep, |rng, ctx| {
        let lit = gen_nrf(rng);
        let x: f64 = std::str::from_utf8(&lit).unwrap().parse().unwrap();
        if !(x == 0.0 || (x.abs() > 1e-12 && x.abs() < 1e12)) {
            return;
        }
        macro_rules! q {
            ($name:literal, $ty:ty, $unit:ty, $table:expr) => {{
                let su = rng.pick($table);
                let suffix = case_pattern(rng, su.s);
                let bare = rng.chance(1, 6);
                let tok = if bare { Token::DecimalNumericProgramData(&lit) } else { Token::DecimalNumericSuffixProgramData(&lit, &suffix) };
                let r: Result<$ty, Error> = <$ty>::try_from(tok);
                bump(ctx, 1);
                ctx.count(&format!("other-base-units.{}", $name));
                ctx.nontrivial(mix(hash_bytes(&lit), hash_bytes(&suffix)));
                let factor = if bare { 1.0 } else { su.factor };
                let want = (x + if bare { 0.0 } else { su.pre_offset }) * factor;
                match r {
                    Err(e) => ctx.violation(&format!("C18:{}:defined-suffix-rejected:other-base-units", $name), jobj(&[("literal", jbytes(&lit)), ("suffix", jbytes(&suffix)), ("error", e.get_code().to_string())])),
                    Ok(v) => {
                        let got = v.get::<$unit>() as f64;
                        let ok = (got - want).abs() <= 2e-5 * want.abs().max(f64::MIN_POSITIVE) || (!bare && su.alt_factor.map_or(false, |f| (got - x * f).abs() <= 2e-5 * (x * f).abs()));
                        if !ok && want.abs() > 1e-25 && want.abs() < 1e25 {
                            ctx.violation(&format!("C18:{}:wrong-scale:other-base-units", $name), jobj(&[("literal", jbytes(&lit)), ("suffix", jbytes(if bare { b"" } else { &suffix })), ("value_in_named_unit", format!("\"{:e}\"", got)), ("expected", format!("\"{:e}\"", want))]));
                        }
                    }
                }
            }};
        }
        match ctx.index % 6 {
            0 => q!("ElectricPotential", cgs::ElectricPotential, volt, POTENTIAL),
            1 => q!("ElectricalResistance", cgs::ElectricalResistance, ohm, RESISTANCE),
            2 => q!("Energy", cgs::Energy, joule, ENERGY),
            3 => q!("Power", cgs::Power, watt, POWER),
            4 => q!("Frequency", cgs::Frequency, hertz, FREQUENCY),
            _ => q!("Time", cgs::Time, second, TIME),
        }
    });
}
