//! A few hand-written derived enums (the large generated corpus lives in enums_corpus.rs).
use scpi::option::ScpiEnum;

#[derive(Copy, Clone, PartialEq, Debug, scpi_derive::ScpiEnum)]
pub enum Fmt {
    #[scpi(mnemonic = b"BINary")]
    Binary,
    #[scpi(mnemonic = b"REAL")]
    Real,
    #[scpi(mnemonic = b"ASCii1")]
    Ascii1,
    #[scpi(mnemonic = b"ASCii2")]
    Ascii2,
    #[scpi(mnemonic = b"L125")]
    L125,
    #[scpi(mnemonic = b"CHANnel10")]
    Chan10,
    #[scpi(mnemonic = b"X")]
    X,
    #[scpi(mnemonic = b"ABCDEFGHIJKL")]
    Long12,
}

pub const FMT_ALL: [Fmt; 8] = [Fmt::Binary, Fmt::Real, Fmt::Ascii1, Fmt::Ascii2, Fmt::L125, Fmt::Chan10, Fmt::X, Fmt::Long12];

#[derive(Copy, Clone, PartialEq, Debug, scpi_derive::ScpiEnum)]
pub enum Src {
    #[scpi(mnemonic = b"IMMediate")]
    Imm,
    #[scpi(mnemonic = b"EXTernal2")]
    Ext2(u8),
    #[scpi(mnemonic = b"EXTernal")]
    Ext(u8),
    #[scpi(mnemonic = b"BUS")]
    Bus,
}

pub fn src_all() -> [Src; 4] {
    [Src::Imm, Src::Ext2(0), Src::Ext(0), Src::Bus]
}

pub fn _use() {
    let _ = Fmt::from_mnemonic(b"x");
}
