//! A few hand-written derived enums (the large generated corpus lives in enums_corpus.rs).
use scpi::option::ScpiEnum;

#[derive(Copy, Clone, PartialEq, Debug, scpi_derive::ScpiEnum)]
pub enum Fmt {
    #[scpi(mnemonic = b"BINary")]
    Binary,
    #[scpi(mnemonic = b"REAL")]
    Real,
    #[scpi(mnemonic = b"ASCii1")]
    Ascii1,
    #[scpi(mnemonic = b"ASCii2")]
    Ascii2,
    #[scpi(mnemonic = b"L125")]
    L125,
    #[scpi(mnemonic = b"CHANnel10")]
    Chan10,
    #[scpi(mnemonic = b"X")]
    X,
    #[scpi(mnemonic = b"ABCDEFGHIJKL")]
    Long12,
}

pub const FMT_ALL: [Fmt; 8] = [Fmt::Binary, Fmt::Real, Fmt::Ascii1, Fmt::Ascii2, Fmt::L125, Fmt::Chan10, Fmt::X, Fmt::Long12];

#[derive(Copy, Clone, PartialEq, Debug, scpi_derive::ScpiEnum)]
pub enum Src {
    #[scpi(mnemonic = b"IMMediate")]
    Imm,
    #[scpi(mnemonic = b"EXTernal2")]
    Ext2(u8),
    #[scpi(mnemonic = b"EXTernal")]
    Ext(u8),
    #[scpi(mnemonic = b"BUS")]
    Bus,
}

pub fn src_all() -> [Src; 4] {
    [Src::Imm, Src::Ext2(0), Src::Ext(0), Src::Bus]
}

pub fn _use() {
    let _ = Fmt::from_mnemonic(b"x");
}

// ---- realistic definitions next to the generated corpus: the enumerations instruments actually declare, with variant
// identifiers and mnemonics a maintainer could be tempted to special-case (ON/OFF, MIN/MAX/DEF, TRUE/FALSE, ...)
use crate::props::enums_corpus::EnumInfo;
use scpi::parser::response::ResponseData;

macro_rules! real_enum {
    ($name:ident : $first:ident = $fmn:literal $(, $var:ident = $mn:literal)* $(,)?) => {
        // the first variant is also the `Default` of the type, as application code writes it
        #[derive(Copy, Clone, PartialEq, Debug, Default, scpi_derive::ScpiEnum)]
        pub enum $name {
            #[default]
            #[scpi(mnemonic = $fmn)]
            $first,
            $( #[scpi(mnemonic = $mn)] $var ),*
        }
        impl $name {
            const ALL: &'static [$name] = &[$name::$first $(, $name::$var)*];
            fn idx(&self) -> usize { Self::ALL.iter().position(|v| v == self).unwrap() }
            pub const INFO: EnumInfo = EnumInfo {
                name: stringify!($name),
                mnemonics: &[$fmn as &[u8] $(, $mn as &[u8])*],
                field: &[{ let _ = $fmn; false } $(, { let _ = $mn; false })*],
                from_mnemonic: |s| $name::from_mnemonic(s).map(|v| v.idx()),
                mnemonic_of: |i| $name::ALL[i].mnemonic(),
                short_form_of: |i| $name::ALL[i].short_form(),
                try_from_token: |t| $name::try_from(t).map(|v| v.idx()),
                format: |i| { let mut out: Vec<u8> = Vec::new(); $name::ALL[i].format_response_data(&mut out)?; Ok(out) },
            };
        }
    };
}

real_enum!(OnOff: On = b"ON", Off = b"OFF");
real_enum!(AutoOnOff: Auto = b"AUTO", On = b"ON", Off = b"OFF");
real_enum!(OffOnOnce: Off = b"OFF", On = b"ON", Once = b"ONCE");
real_enum!(MinMaxDef: Minimum = b"MINimum", Maximum = b"MAXimum", Default = b"DEFault");
real_enum!(UpDown: Up = b"UP", Down = b"DOWN");
real_enum!(InfNinfNan: Infinity = b"INFinity", NegInfinity = b"NINFinity", Nan = b"NAN");
real_enum!(TrigSource: Immediate = b"IMMediate", External = b"EXTernal", Bus = b"BUS", Internal2 = b"INTernal2", Timer = b"TIMer", Manual = b"MANual");
real_enum!(Slope: Positive = b"POSitive", Negative = b"NEGative", Either = b"EITHer");
real_enum!(DataFormat: Ascii = b"ASCii", Real = b"REAL", Integer = b"INTeger", Packed = b"PACKed", Hex = b"HEXadecimal", Octal = b"OCTal", Binary = b"BINary");
real_enum!(ByteOrder: Normal = b"NORMal", Swapped = b"SWAPped");
real_enum!(Coupling: Dc = b"DC", Ac = b"AC", Ground = b"GROund");
real_enum!(Function: Voltage = b"VOLTage", Current = b"CURRent", Resistance = b"RESistance", FResistance = b"FRESistance", Frequency = b"FREQuency", Period = b"PERiod", Temperature = b"TEMPerature");
real_enum!(Channel: Ch1 = b"CH1", Ch2 = b"CH2", Ch3 = b"CH3", Ch4 = b"CH4");
real_enum!(ChannelWide: Ch1 = b"CH1", Ch11 = b"CH11", Ch21 = b"CH21", Ch2 = b"CH2", Ch111 = b"CH111", Aux31 = b"AUXiliary31", Aux3 = b"AUXiliary3", Slot101 = b"SLOT101", Slot10 = b"SLOT10");
real_enum!(TrueFalse: True = b"TRUE", False = b"FALSE");
real_enum!(YesNo: Yes = b"YES", No = b"NO");
real_enum!(ZeroOne: Zero = b"ZERO", One = b"ONE");
real_enum!(LowHigh: Low = b"LOW", High = b"HIGH", Medium = b"MEDium");
real_enum!(NoneAll: None_ = b"NONE", All = b"ALL", Selected = b"SELected");
real_enum!(Unit: V = b"V", A = b"A", W = b"W", Db = b"DB", Dbm = b"DBM", Hz = b"HZ");
real_enum!(Single: Only = b"ONLY");
real_enum!(Windows: Rectangular = b"RECTangular", Hanning = b"HANNing", Hamming = b"HAMMing", Flattop = b"FLATtop", Uniform = b"UNIForm");
real_enum!(StateE: State = b"STATe", Range = b"RANGe", Sense = b"SENSe", Trace = b"TRACe", Time = b"TIMe");

// enumerations with more variants than an 8- or 10-bit ordinal can number (300 numbered channels, 1100 words)
include!("enums_large.rs");

/// the enumeration the library itself derives and exports for `<header>? MAX|MIN|DEF` queries
pub const NUMERIC_VALUE_QUERY: EnumInfo = {
    use scpi_contrib::scpi1999::NumericValueQuery as Q;
    fn idx(q: &Q) -> usize {
        match q {
            Q::Maximum => 0,
            Q::Minimum => 1,
            Q::Default => 2,
        }
    }
    fn make(i: usize) -> Q {
        match i {
            0 => Q::Maximum,
            1 => Q::Minimum,
            _ => Q::Default,
        }
    }
    EnumInfo {
        name: "scpi_contrib::scpi1999::NumericValueQuery",
        mnemonics: &[b"MAXimum", b"MINimum", b"DEFault"],
        field: &[false, false, false],
        from_mnemonic: |s| Q::from_mnemonic(s).map(|v| idx(&v)),
        mnemonic_of: |i| make(i).mnemonic(),
        short_form_of: |i| make(i).short_form(),
        try_from_token: |t| Q::try_from(t).map(|v| idx(&v)),
        format: |i| {
            let mut out: Vec<u8> = Vec::new();
            make(i).format_response_data(&mut out)?;
            Ok(out)
        },
    }
};

/// field-less enums with explicit discriminants that differ from the declaration position (register codes, wire values)
#[derive(Copy, Clone, PartialEq, Debug, scpi_derive::ScpiEnum)]
pub enum Level {
    #[scpi(mnemonic = b"LOW")]
    Low = 1,
    #[scpi(mnemonic = b"MEDium")]
    Medium = 2,
    #[scpi(mnemonic = b"HIGH")]
    High = 4,
    #[scpi(mnemonic = b"OFF")]
    Off = 0,
}
#[derive(Copy, Clone, PartialEq, Debug, scpi_derive::ScpiEnum)]
pub enum Polarity {
    #[scpi(mnemonic = b"NEGative")]
    Negative = -1,
    #[scpi(mnemonic = b"POSitive")]
    Positive = 1,
    #[scpi(mnemonic = b"EITHer")]
    Either = 100,
}
macro_rules! hand_info {
    ($cname:ident, $t:ident, [$($v:ident = $mn:literal),+]) => {
        pub const $cname: EnumInfo = {
            const ALL: &[$t] = &[$($t::$v),+];
            fn idx(x: &$t) -> usize { ALL.iter().position(|v| v == x).unwrap() }
            EnumInfo {
                name: stringify!($t),
                mnemonics: &[$($mn as &[u8]),+],
                field: &[$({ let _ = $mn; false }),+],
                from_mnemonic: |s| $t::from_mnemonic(s).map(|v| idx(&v)),
                mnemonic_of: |i| ALL[i].mnemonic(),
                short_form_of: |i| ALL[i].short_form(),
                try_from_token: |t| $t::try_from(t).map(|v| idx(&v)),
                format: |i| { let mut out: Vec<u8> = Vec::new(); ALL[i].format_response_data(&mut out)?; Ok(out) },
            }
        };
    };
}
hand_info!(LEVEL_INFO, Level, [Low = b"LOW", Medium = b"MEDium", High = b"HIGH", Off = b"OFF"]);
hand_info!(POLARITY_INFO, Polarity, [Negative = b"NEGative", Positive = b"POSitive", Either = b"EITHer"]);

pub static REALISTIC: &[EnumInfo] = &[
    NUMERIC_VALUE_QUERY,
    LEVEL_INFO,
    POLARITY_INFO,
    OnOff::INFO, AutoOnOff::INFO, OffOnOnce::INFO, MinMaxDef::INFO, UpDown::INFO, InfNinfNan::INFO, TrigSource::INFO, Slope::INFO, DataFormat::INFO, ByteOrder::INFO, Coupling::INFO,
    Chan300::INFO, Big1100::INFO, Function::INFO, Channel::INFO, ChannelWide::INFO, TrueFalse::INFO, YesNo::INFO, ZeroOne::INFO, LowHigh::INFO, NoneAll::INFO, Unit::INFO, Single::INFO, Windows::INFO, StateE::INFO,
];

/// generated corpus + realistic definitions
pub fn all_enums() -> &'static [&'static EnumInfo] {
    static ALL: std::sync::OnceLock<Vec<&'static EnumInfo>> = std::sync::OnceLock::new();
    ALL.get_or_init(|| crate::props::enums_corpus::CORPUS.iter().chain(REALISTIC.iter()).collect())
}

// ---- variants that carry several mnemonics (aliases: POSitive|RISing select the same edge). The derive accepts repeated
// `mnemonic = ...` entries and repeated #[scpi] attributes; every alias selects the variant, the variant reports one of them.
#[derive(Copy, Clone, PartialEq, Debug, scpi_derive::ScpiEnum)]
pub enum Edge {
    #[scpi(mnemonic = b"POSitive", mnemonic = b"RISing")]
    Pos,
    #[scpi(mnemonic = b"NEGative")]
    #[scpi(mnemonic = b"FALLing")]
    Neg,
    #[scpi(mnemonic = b"EITHer")]
    Either,
}
#[derive(Copy, Clone, PartialEq, Debug, scpi_derive::ScpiEnum)]
pub enum Port {
    #[scpi(mnemonic = b"FRONt", mnemonic = b"TERMinal1", mnemonic = b"A")]
    Front,
    #[scpi(mnemonic = b"REAR", mnemonic = b"TERMinal2")]
    Rear(u8),
    #[scpi(mnemonic = b"AUXiliary3")]
    Aux,
}
/// (enum name, alias mnemonic, variant index) tables + accessors for the alias enums
pub struct AliasInfo {
    pub name: &'static str,
    pub aliases: &'static [(&'static [u8], usize)],
    pub from_mnemonic: fn(&[u8]) -> Option<usize>,
    pub try_from_token: fn(scpi::parser::tokenizer::Token) -> Result<usize, scpi::error::Error>,
    pub mnemonic_of: fn(usize) -> &'static [u8],
    pub format: fn(usize) -> Result<Vec<u8>, scpi::error::Error>,
}
fn edge_idx(e: Edge) -> usize {
    match e {
        Edge::Pos => 0,
        Edge::Neg => 1,
        Edge::Either => 2,
    }
}
fn port_idx(e: Port) -> usize {
    match e {
        Port::Front => 0,
        Port::Rear(_) => 1,
        Port::Aux => 2,
    }
}
const EDGES: [Edge; 3] = [Edge::Pos, Edge::Neg, Edge::Either];
const PORTS: [Port; 3] = [Port::Front, Port::Rear(0), Port::Aux];
pub static ALIAS_ENUMS: &[AliasInfo] = &[
    AliasInfo {
        name: "Edge",
        aliases: &[(b"POSitive", 0), (b"RISing", 0), (b"NEGative", 1), (b"FALLing", 1), (b"EITHer", 2)],
        from_mnemonic: |s| Edge::from_mnemonic(s).map(edge_idx),
        try_from_token: |t| Edge::try_from(t).map(edge_idx),
        mnemonic_of: |i| EDGES[i].mnemonic(),
        format: |i| {
            let mut out: Vec<u8> = Vec::new();
            EDGES[i].format_response_data(&mut out)?;
            Ok(out)
        },
    },
    AliasInfo {
        name: "Port",
        aliases: &[(b"FRONt", 0), (b"TERMinal1", 0), (b"A", 0), (b"REAR", 1), (b"TERMinal2", 1), (b"AUXiliary3", 2)],
        from_mnemonic: |s| Port::from_mnemonic(s).map(port_idx),
        try_from_token: |t| Port::try_from(t).map(port_idx),
        mnemonic_of: |i| PORTS[i].mnemonic(),
        format: |i| {
            let mut out: Vec<u8> = Vec::new();
            PORTS[i].format_response_data(&mut out)?;
            Ok(out)
        },
    },
];
