//! C05 — units run left to right, each at most once; the first failure aborts the message, is
//! returned, and reaches the error hook exactly once; success never calls the hook.
use crate::fw::*;
use crate::gen::msg::*;
use crate::gen::scen::*;
use crate::gen::tree::*;
use crate::mon::capdispatch::{run_cap, CAPS};
use crate::mon::dev::*;
use crate::mon::tree::*;
use crate::props::c10::unit_text;
use crate::refm::errclass::is_command_error;
use crate::refm::resolver::*;
use scpi::error::{Error, ErrorCode};
use scpi::Context;

const BAD_UNITS: &[(&[u8], &str)] = &[
    (b" 'unterminated", "unterminated-string"),
    (b" \"abc", "unterminated-string"),
    (b" 1 2", "missing-separator"),
    (b" 1,,2", "doubled-comma"),
    (b" ABCDEFGHIJKLMNOP", "chardata-too-long"),
    (b" 1.5 ABCDEFGHIJKLMNOP", "suffix-too-long"),
    (b" \xff", "non-ascii"),
    (b" (1,2", "unterminated-expression"),
    (b" #H", "bad-nondecimal"),
    (b" 12:3", "misplaced-colon"),
    (b"::X", "misplaced-colon-in-header"),
    (b":ABCDEFGHIJKLMNOP", "mnemonic-too-long"),
    (b"\xc3\xa9", "non-ascii-in-header"),
    (b"?1", "data-after-query"),
    // an empty unit behind a complete one (`HDR;;NEXT`, `HDR 1; ;NEXT`): the unit in front of it is well-formed and runs to completion
    (b";", "empty-unit"),
    (b" 1; ", "empty-unit"),
];

fn pick_error(rng: &mut Rng) -> Error {
    let codes = [
        ErrorCode::CommandError, ErrorCode::SyntaxError, ErrorCode::UndefinedHeader, ErrorCode::ExecutionError, ErrorCode::DataOutOfRange, ErrorCode::OutOfMemory,
        ErrorCode::DeviceSpecificError, ErrorCode::QueueOverflow, ErrorCode::QueryError, ErrorCode::PowerOn, ErrorCode::UserRequest, ErrorCode::RequestControl,
        ErrorCode::OperationComplete, ErrorCode::MissingParameter, ErrorCode::ParameterNotAllowed,
    ];
    let mut e = match rng.usize(4) {
        0 => Error::custom(rng.range(1, 32000) as i16, b"Custom device error"),
        1 => Error::custom(-(rng.range(300, 399) as i16), b"Custom negative"),
        _ => Error::new(*rng.pick(&codes)),
    };
    if rng.chance(1, 3) {
        e = e.extended(*rng.pick(&[&b"extended info"[..], b"", b"a;b", b"near \"x\""]));
    }
    e
}

pub fn run(cfg: &Cfg, rep: &mut Report) {
    let ntrees = cfg.n(4, 24_000, 480_000);
    let nmsg = cfg.n(12, 80, 200) as usize;
    run_cases(cfg, "faults", ntrees, rep, |rng, ctx| {
        let (specs, nh) = TreeGen::generate(rng, true);
        if nh < 3 {
            ctx.count("trees.too-small-skipped");
            return;
        }
        // F fails with `ferr`; G wants exactly two parameters; everything else is omnivorous and answers queries
        let f = rng.usize(nh);
        let mut g = rng.usize(nh);
        while g == f {
            g = rng.usize(nh);
        }
        let ferr = pick_error(rng);
        let mut scripts = crate::props::c10::framing_scripts(rng, nh, false);
        scripts[f].fail = Some(ferr);
        // half of the failing handlers refuse before reading their parameters: the error reported must still be
        // theirs, not a complaint about the data they left unread
        scripts[f].fail_before_pulls = rng.bool();
        // a third of the failing handlers do not return the error themselves: a response datum of their own type refuses to
        // be formatted with it (query form; the event form returns it as before)
        scripts[f].fail_via_response = rng.chance(1, 3);
        scripts[g].omnivore = false;
        scripts[g].pulls = vec![Pull { optional: false, conv: Conv::Token }; 2];
        // the node the message is run on is the nameless root, or (one tree in five) a node with a name of its own
        let top: &[u8] = if rng.chance(1, 5) { *rng.pick(&[&b"CARD"[..], b"SLOT2", b"INSTrument"]) } else { b"" };
        if !top.is_empty() {
            ctx.count("trees.run-on-a-named-node");
        }
        let built: Built<Dev, Script> = Built::new_named(top, &specs, scripts.clone());
        let rt = RTree::from_specs(&specs);
        let mut dev = Dev::new();
        let mut c = Context::default();

        let hitting = |rng: &mut Rng, level: usize, first: bool, pred: &dyn Fn(usize) -> bool| -> Option<(GenUnit, usize, usize)> {
            for _ in 0..400 {
                let (gu, h, nl) = gen_resolving_unit(rng, &rt, level, first);
                if pred(h) {
                    return Some((gu, h, nl));
                }
            }
            None
        };

        for _ in 0..nmsg {
            let k = if rng.chance(1, 600) && !ctx.cfg.tiny { 200 + rng.usize(100) } else { 1 + rng.usize(8) };
            let fault = rng.usize(7); // 0 none, 1 handler error, 2 too few, 3 too many, 4 undefined header, 5 syntax, 6 formatter capacity
            let fi = rng.usize(k);
            let mut msg: Vec<u8> = Vec::new();
            let mut level = 0usize;
            let mut units: Vec<(usize, bool)> = vec![]; // (handler, query) of units that resolve
            let mut ok = true;
            let mut fault_name = "none".to_string();
            let mut bad_kind = "";
            for u in 0..k {
                if u > 0 {
                    ws0(rng, &mut msg);
                    msg.push(b';');
                    ws0(rng, &mut msg);
                }
                let faulty = fault != 0 && fault != 6 && u == fi;
                if faulty && fault == 4 {
                    let gu = gen_undefined_unit(rng, &rt, level, u == 0);
                    msg.extend_from_slice(&gu.header());
                    fault_name = "undefined-header".into();
                    // later units are never reached; keep generating absolute ones
                    level = 0;
                    units.push((usize::MAX, gu.query));
                    continue;
                }
                let want: &dyn Fn(usize) -> bool = if faulty && fault == 1 {
                    &|h| h == f
                } else if faulty && (fault == 2 || fault == 3) {
                    &|h| h == g
                } else {
                    &|h| h != f && h != g
                };
                let (gu, h, nl) = match hitting(rng, level, u == 0, want) {
                    Some(x) => x,
                    None => {
                        ok = false;
                        break;
                    }
                };
                level = nl;
                if faulty && fault == 5 {
                    // syntax error placed in this unit: header, then something ill-formed
                    let (b, name) = *rng.pick(BAD_UNITS);
                    let mut hd = gu.header();
                    if hd.last() == Some(&b'?') && b[0] != b' ' && name != "empty-unit" {
                        hd.pop();
                    }
                    msg.extend_from_slice(&hd);
                    msg.extend_from_slice(b);
                    fault_name = format!("syntax:{}", name);
                    bad_kind = name;
                    units.push((h, gu.query));
                    continue;
                }
                msg.extend_from_slice(&gu.header());
                let ndata = if faulty && fault == 2 {
                    fault_name = "too-few-parameters".into();
                    rng.usize(2)
                } else if faulty && fault == 3 {
                    fault_name = "too-many-parameters".into();
                    3 + rng.usize(2)
                } else if h == g {
                    2
                } else if rng.chance(1, 4) {
                    1 + rng.usize(3)
                } else {
                    0
                };
                if faulty && fault == 1 {
                    fault_name = format!("handler-error:{}", if ferr.get_extended().is_some() { "extended" } else { "plain" });
                }
                if ndata > 0 {
                    ws1(rng, &mut msg);
                    let data: Vec<GDatum> = (0..ndata)
                        .map(|_| {
                            let kd = any_kind(rng);
                            gen_datum(rng, kd)
                        })
                        .collect();
                    render_data(rng, &data, &mut msg);
                }
                units.push((h, gu.query));
            }
            if !ok {
                ctx.count("messages.skipped(no unit for wanted handler)");
                continue;
            }
            let ending = *rng.pick(&[Ending::Eoi, Ending::Nl, Ending::WsNl, Ending::CrLf]);
            if !(fault == 5 && fi == k - 1) {
                render_ending(rng, ending, &mut msg);
            }

            // (an empty unit is a zone the reference does not judge: whether the library accepts or refuses `A;;B` is its choice;
            // what is judged below is only that the well-formed units in front of the stray separator ran to completion)
            if fault == 5 && bad_kind != "empty-unit" && !matches!(crate::refm::lexer::lex_message(&msg), crate::refm::lexer::Lex::Reject(..)) {
                // later text happened to repair the corruption (e.g. a quote closing the open string)
                ctx.count("messages.skipped(syntax fault not confirmed by the reference lexer)");
                continue;
            }
            if fault == 6 {
                // formatter failure at every write: sweep the capacity below the full response length
                let texts: Vec<Option<Vec<u8>>> = units.iter().map(|(h, q)| if *q { Some(unit_text(&scripts[*h])) } else { None }).collect();
                let total: usize = {
                    let mut n = 0;
                    let mut first = true;
                    for t in texts.iter().flatten() {
                        n += t.len() + if first { 0 } else { 1 };
                        first = false;
                    }
                    if n > 0 { n + 1 } else { 0 }
                };
                let caps: Vec<usize> = if ctx.cfg.tiny { vec![0, total / 2, total.saturating_sub(1)] } else { CAPS.iter().copied().filter(|c| *c < total).collect() };
                for cap in caps {
                    if !CAPS.contains(&cap) {
                        continue;
                    }
                    bump(ctx, 1);
                    // expected: which units get invoked before the buffer is exhausted
                    let mut used = 0usize;
                    let mut exp_inv: Vec<(u32, bool)> = vec![];
                    let mut first = true;
                    let mut failed_at = "terminator";
                    let mut done = false;
                    for (i, (h, q)) in units.iter().enumerate() {
                        if let Some(t) = &texts[i] {
                            let sep = if first { 0 } else { 1 };
                            if used + sep > cap {
                                failed_at = "unit-separator";
                                done = true;
                                break;
                            }
                            exp_inv.push((*h as u32, *q));
                            if used + sep + t.len() > cap {
                                failed_at = "inside-unit";
                                done = true;
                                break;
                            }
                            used += sep + t.len();
                            first = false;
                        } else {
                            exp_inv.push((*h as u32, *q));
                        }
                    }
                    let _ = done;
                    dev.clear();
                    let cr = run_cap(cap, built.root(), &msg, &mut dev, &mut c).unwrap();
                    ctx.count(&format!("fault.formatter-capacity.{}", failed_at));
                    ctx.nontrivial(mix(hash_bytes(&msg), cap as u64));
                    let got = dev.invocations();
                    let detail = || jobj(&[("message", jbytes(&msg)), ("capacity", cap.to_string()), ("fault", jstr(&format!("buffer exhausted at {}", failed_at))), ("expected_invocations", jstr(&format!("{:?}", exp_inv))), ("observed_invocations", jstr(&format!("{:?}", got))), ("result", jstr(&format!("{:?}", cr.result))), ("hook", jstr(&format!("{:?}", dev.hook)))]);
                    check(ctx, "formatter-capacity", &got, &exp_inv, &cr.result, &dev.hook, Expect::Exactly(Error::new(ErrorCode::OutOfMemory)), &detail);
                }
                continue;
            }

            bump(ctx, 1);
            dev.clear();
            let mut resp: Vec<u8> = Vec::new();
            // an unread earlier response (mav) must not change what is executed or reported
            c.mav = rng.chance(1, 3);
            let r = built.root().run(&msg, &mut dev, &mut c, &mut resp);
            let got = dev.invocations();
            // a fault in a later unit is not visible to the handlers of the units in front of it: they ran to completion
            // (for an empty unit that includes the well-formed unit written in front of the stray separator)
            if fault == 4 || fault == 5 {
                let through = if bad_kind == "empty-unit" { fi + 1 } else { fi };
                let mut j = 0usize;
                for e in dev.log.iter() {
                    if let Ev::Return { err, .. } = e {
                        if j < through && err.is_some() {
                            ctx.violation(&format!("C05:handler-of-an-earlier-unit-saw-the-fault-of-a-later-unit:{}", fault_name.split(':').last().unwrap()), jobj(&[("message", jbytes(&msg)), ("fault", jstr(&fault_name)), ("fault_unit", fi.to_string()), ("unit", j.to_string()), ("handler_result", jstr(&format!("{:?}", err)))]));
                        }
                        j += 1;
                    }
                }
            }
            if bad_kind == "empty-unit" {
                // the units up to and including the one in front of the stray separator were invoked, in order, once each
                let want: Vec<(u32, bool)> = units[..=fi].iter().map(|(h, q)| (*h as u32, *q)).collect();
                if got.len() < want.len() || got[..want.len()] != want[..] {
                    ctx.violation("C05:earlier-unit-not-executed:empty-unit", jobj(&[("message", jbytes(&msg)), ("expected_invocations(prefix)", jstr(&format!("{:?}", want))), ("observed_invocations", jstr(&format!("{:?}", got)))]));
                }
                ctx.count(if r.is_ok() { "empty-unit.message-accepted(no verdict on the choice)" } else { "empty-unit.message-refused(no verdict on the choice)" });
                continue;
            }
            // expected invocations
            let (exp_inv, expect): (Vec<(u32, bool)>, Expect) = match fault {
                0 => (units.iter().map(|(h, q)| (*h as u32, *q)).collect(), Expect::Success),
                1 => (units[..=fi].iter().map(|(h, q)| (*h as u32, *q)).collect(), Expect::Exactly(ferr)),
                2 => (units[..=fi].iter().map(|(h, q)| (*h as u32, *q)).collect(), Expect::Code(-109)),
                3 => (units[..=fi].iter().map(|(h, q)| (*h as u32, *q)).collect(), Expect::Code(-108)),
                4 => (units[..fi].iter().map(|(h, q)| (*h as u32, *q)).collect(), Expect::Code(-113)),
                _ => (units[..fi].iter().map(|(h, q)| (*h as u32, *q)).collect(), Expect::CommandErrorUnitOptional((units[fi].0 as u32, units[fi].1))),
            };
            let pos = if k == 1 { "only" } else if fi == 0 { "first" } else if fi == k - 1 { "last" } else { "middle" };
            ctx.count(&format!("fault.{}.{}", fault_name.split(':').next().unwrap(), if fault == 0 { "-" } else { pos }));
            if !bad_kind.is_empty() {
                ctx.count(&format!("syntax-fault.{}", bad_kind));
            }
            ctx.nontrivial(mix(mix(hash_str(&fault_name), fi as u64 * 16 + k as u64), hash_bytes(&msg)));
            let detail = || jobj(&[("message", jbytes(&msg)), ("fault", jstr(&fault_name)), ("fault_unit", fi.to_string()), ("units", k.to_string()), ("expected_invocations", jstr(&format!("{:?}", exp_inv))), ("observed_invocations", jstr(&format!("{:?}", got))), ("result", jstr(&format!("{:?}", r))), ("hook", jstr(&format!("{:?}", dev.hook)))]);
            check(ctx, fault_name.split(':').next().unwrap(), &got, &exp_inv, &r, &dev.hook, expect, &detail);
            if ctx.index % 499 == 0 {
                ctx.sample(|| jobj(&[("message", jbytes(&msg)), ("fault", jstr(&fault_name)), ("fault_unit", fi.to_string()), ("result", jstr(&format!("{:?}", r.as_ref().err().map(|e| e.get_code()))))]));
            }
        }
    });
}

enum Expect {
    Success,
    Exactly(Error),
    Code(i16),
    /// syntax fault: a command error; the faulty unit's handler may or may not have been entered (at most once)
    CommandErrorUnitOptional((u32, bool)),
}

fn check(ctx: &mut Ctx, fault: &str, got: &[(u32, bool)], exp: &[(u32, bool)], r: &Result<(), Error>, hook: &[Error], expect: Expect, detail: &dyn Fn() -> String) {
    // order / at-most-once / nothing after the failing unit
    let inv_ok = match &expect {
        Expect::CommandErrorUnitOptional(u) => got == exp || (got.len() == exp.len() + 1 && got[..exp.len()] == *exp && got[exp.len()] == *u),
        _ => got == exp,
    };
    if !inv_ok {
        let sig = if got.len() > exp.len() && got[..exp.len()] == *exp {
            "later-unit-executed-after-failure"
        } else if got.len() < exp.len() && exp[..got.len()] == *got {
            "earlier-unit-not-executed"
        } else {
            "execution-order-or-count-differs"
        };
        ctx.violation(&format!("C05:{}:{}", sig, fault), detail());
        return;
    }
    match (&expect, r) {
        (Expect::Success, Ok(())) => {
            if !hook.is_empty() {
                ctx.violation("C05:hook-called-on-success", detail());
            }
            ctx.count("messages.succeeded");
            return;
        }
        (Expect::Success, Err(_)) => {
            ctx.violation(&format!("C05:fault-free-message-failed:{}", fault), detail());
            return;
        }
        (_, Ok(())) => {
            ctx.violation(&format!("C05:failure-not-returned:{}", fault), detail());
            return;
        }
        (Expect::Exactly(e), Err(x)) => {
            if e != x {
                ctx.violation(&format!("C05:returned-error-is-not-the-one-raised:{}", fault), detail());
                return;
            }
        }
        (Expect::Code(c), Err(x)) => {
            if x.get_code() != *c {
                ctx.violation(&format!("C05:unexpected-error-code:{}:{}", fault, x.get_code()), detail());
                return;
            }
        }
        (Expect::CommandErrorUnitOptional(_), Err(x)) => {
            if !is_command_error(x.get_code()) {
                ctx.violation(&format!("C05:syntax-fault-not-a-command-error:{}", x.get_code()), detail());
                return;
            }
        }
    }
    // hook: exactly once, with exactly the returned error
    let e = r.as_ref().err().unwrap();
    if hook.len() != 1 {
        ctx.violation(&format!("C05:hook-called-{}-times:{}", hook.len(), fault), detail());
    } else if hook[0] != *e {
        ctx.violation(&format!("C05:hook-received-different-error:{}", fault), detail());
    } else {
        ctx.count("messages.failed-as-expected");
    }
}
