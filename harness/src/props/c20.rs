//! C20 — derived enums: from_mnemonic / TryFrom<Token> / mnemonic() / response text are consistent
//! with the matching rule, over a corpus of generated enum definitions (enums_corpus.rs).
use crate::fw::*;
use crate::props::c03::candidates;
use crate::props::enums_corpus::EnumInfo;
use crate::props::enums_fixed::all_enums;
use crate::refm::decode::is_chardata;
use crate::refm::mnemonic::ref_match;
use scpi::parser::tokenizer::Token;

/// Some(Some(i)) designated variant, Some(None) no variant, None no verdict
fn designated(e: &EnumInfo, cand: &[u8]) -> Option<Option<usize>> {
    let mut hit = None;
    for (i, m) in e.mnemonics.iter().enumerate() {
        match ref_match(m, cand) {
            None => return None,
            Some(true) => {
                if hit.is_some() {
                    return None; // would be a corpus bug; counted by the caller through the self-check below
                }
                hit = Some(i);
            }
            Some(false) => {}
        }
    }
    Some(hit)
}

fn suffix_kind(m: &[u8]) -> &'static str {
    let n = m.iter().rev().take_while(|c| c.is_ascii_digit()).count();
    if n == 0 {
        "no-suffix"
    } else if &m[m.len() - n..] == b"1" {
        "suffix-1"
    } else {
        "suffix-other"
    }
}

pub fn run(cfg: &Cfg, rep: &mut Report) {
    let reps = cfg.n(1, 48, 2_880);
    corpus_stage(cfg, rep, "C20", "corpus", reps);
}

/// The corpus workload; also run (shorter) by C03, whose matching rule the derived `from_mnemonic` applies to
/// character data. `pfx` is the property the signatures are reported under.
pub fn corpus_stage(cfg: &Cfg, rep: &mut Report, pfx: &'static str, stage: &'static str, reps: u64) {
    let corpus = all_enums();
    let n_enums = if cfg.tiny { 6 } else { corpus.len() as u64 };
    run_cases(cfg, stage, n_enums * reps, rep, |rng, ctx| {
        let e = corpus[(ctx.index % corpus.len() as u64) as usize];
        let shape = format!("variants={} fields={} suffixed={}", e.mnemonics.len(), e.field.iter().filter(|f| **f).count(), e.mnemonics.iter().filter(|m| m.last().map_or(false, |c| c.is_ascii_digit())).count());
        ctx.count(&format!("enum-shape.variants.{:02}", e.mnemonics.len()));
        if e.mnemonics.len() > 256 {
            ctx.count("enum-shape.more-than-256-variants");
        }
        let _ = shape;
        // large enumerations: one case covers a window of 24 variants (48 repetitions of the quick tier cover all 1100)
        let nvar = e.mnemonics.len();
        let (lo, hi) = if nvar <= 40 {
            (0, nvar)
        } else {
            let windows = (nvar + 23) / 24;
            let k = ((ctx.index / corpus.len() as u64) as usize) % windows;
            (k * 24, (k * 24 + 24).min(nvar))
        };
        for (vi, m) in e.mnemonics.iter().enumerate() {
            if vi < lo || vi >= hi {
                continue;
            }
            bump(ctx, 1);
            // each variant reports its own mnemonic
            if (e.mnemonic_of)(vi) != *m {
                ctx.violation(&format!("{}:mnemonic()-returns-another-variant's-mnemonic", pfx), jobj(&[("enum", jstr(e.name)), ("variant", vi.to_string()), ("got", jbytes((e.mnemonic_of)(vi))), ("want", jbytes(m))]));
            }
            // response text is character data and selects the same variant
            match (e.format)(vi) {
                Err(x) => ctx.violation(&format!("{}:response-format-failed", pfx), jobj(&[("enum", jstr(e.name)), ("variant", vi.to_string()), ("error", x.get_code().to_string())])),
                Ok(text) => {
                    let k = suffix_kind(m);
                    ctx.count(&format!("response.{}", k));
                    if !is_chardata(&text) {
                        ctx.violation(&format!("{}:response-text-is-not-character-data:{}", pfx, k), jobj(&[("enum", jstr(e.name)), ("mnemonic", jbytes(m)), ("text", jbytes(&text))]));
                    }
                    match (e.try_from_token)(Token::CharacterProgramData(&text)) {
                        Ok(i) if i == vi => {}
                        other => ctx.violation(&format!("{}:response-text-does-not-select-same-variant:{}", pfx, k), jobj(&[("enum", jstr(e.name)), ("mnemonics", jstr(&format!("{:?}", e.mnemonics.iter().map(|m| show(m)).collect::<Vec<_>>()))), ("variant_mnemonic", jbytes(m)), ("text", jbytes(&text)), ("selects", jstr(&format!("{:?}", other.map(|i| show(e.mnemonics[i])).map_err(|x| x.get_code()))))])),
                    }
                }
            }
            // candidate families for this variant + the other variants' forms (cross-variant near misses)
            let mut cands = Vec::new();
            candidates(rng, m, &mut cands);
            if e.mnemonics.len() <= 40 {
                for o in e.mnemonics.iter() {
                    cands.push(o.to_vec());
                    cands.push(o.to_ascii_lowercase());
                }
            } else {
                // large enumerations: the neighbours, the variants 2^8 / 2^10 / 2^16 positions away (an ordinal kept in too
                // few bits aliases exactly those) and a random handful
                let n = e.mnemonics.len();
                let mut others: Vec<usize> = vec![(vi + 1) % n, (vi + n - 1) % n, (vi + 256) % n, (vi + n - (256 % n)) % n, (vi + 1024) % n, (vi + 65536) % n, vi % 256, vi % 1024];
                for _ in 0..6 {
                    others.push(rng.usize(n));
                }
                for oi in others {
                    cands.push(e.mnemonics[oi].to_vec());
                    cands.push(e.mnemonics[oi].to_ascii_lowercase());
                }
            }
            // words that are keywords for other parameter types: to an enumeration they are character data like any other
            for w in [&b"DEF"[..], b"DEFault", b"def1", b"MIN", b"MAXimum", b"UP", b"DOWN", b"ON", b"OFF", b"AUTO", b"ONCE", b"INF", b"NAN", b"TRUE", b"NONE"] {
                cands.push(w.to_vec());
            }
            for c in &cands {
                bump(ctx, 1);
                if c.is_empty() || c.len() > 12 {
                    continue;
                }
                let want = match designated(e, c) {
                    None => {
                        ctx.count("candidates.no-verdict");
                        continue;
                    }
                    Some(w) => w,
                };
                let got = (e.from_mnemonic)(c);
                ctx.count(if want.is_some() { "candidates.designating-a-variant" } else { "candidates.designating-none" });
                if want.is_some() || c.first().map(|x| x.to_ascii_uppercase()) == m.first().map(|x| x.to_ascii_uppercase()) {
                    ctx.nontrivial(mix(hash_str(e.name), hash_bytes(c)));
                }
                if got != want {
                    let sig = match (got, want) {
                        (Some(_), Some(_)) => "from_mnemonic-selects-wrong-variant",
                        (Some(_), None) => "from_mnemonic-selects-variant-for-non-matching-datum",
                        _ => "from_mnemonic-misses-matching-datum",
                    };
                    ctx.violation(&format!("{}:{}", pfx, sig), jobj(&[("enum", jstr(e.name)), ("mnemonics", jstr(&format!("{:?}", e.mnemonics.iter().map(|m| show(m)).collect::<Vec<_>>()))), ("datum", jbytes(c)), ("got", jstr(&format!("{:?}", got))), ("want", jstr(&format!("{:?}", want)))]));
                }
                // TryFrom<Token>: character datum -> that variant or illegal parameter value (-224)
                let r = (e.try_from_token)(Token::CharacterProgramData(c));
                let ok = match (&r, want) {
                    (Ok(i), Some(w)) => *i == w,
                    (Err(x), None) => x.get_code() == -224,
                    _ => false,
                };
                if !ok {
                    ctx.violation(&format!("{}:TryFrom-character-datum-differs", pfx), jobj(&[("enum", jstr(e.name)), ("datum", jbytes(c)), ("got", jstr(&format!("{:?}", r.as_ref().map_err(|x| x.get_code())))), ("want", jstr(&format!("{:?}", want)))]));
                }
            }
            // every other element type is a type error (-104)
            let long = m.to_vec();
            let others = [
                Token::DecimalNumericProgramData(b"1"),
                Token::DecimalNumericSuffixProgramData(b"1", b"V"),
                Token::NonDecimalNumericProgramData(1),
                Token::StringProgramData(&long),
                Token::ArbitraryBlockData(&long),
                Token::ExpressionProgramData(&long),
            ];
            for t in others {
                bump(ctx, 1);
                match (e.try_from_token)(t) {
                    Err(x) if x.get_code() == -104 => ctx.count("other-element-kinds.rejected-with-104"),
                    other => ctx.violation(&format!("{}:non-character-element-not-a-type-error", pfx), jobj(&[("enum", jstr(e.name)), ("token", jstr(&format!("{:?}", t))), ("got", jstr(&format!("{:?}", other.map_err(|x| x.get_code()))))])),
                }
            }
        }
        if ctx.index % 61 == 0 {
            ctx.sample(|| jobj(&[("enum", jstr(e.name)), ("mnemonics", jstr(&format!("{:?}", e.mnemonics.iter().map(|m| show(m)).collect::<Vec<_>>())))]));
        }
    });
    // variants with several mnemonics (aliases): every spelling matching any alias selects the variant, nothing else does,
    // the variant reports one of its aliases and its response text selects it again
    run_cases(cfg, if pfx == "C20" { "aliases" } else { "derived-enum-aliases" }, if cfg.tiny { 4 } else { reps.min(200) * 20 }, rep, |rng, ctx| {
        let all = crate::props::enums_fixed::ALIAS_ENUMS;
        let e = &all[(ctx.index % all.len() as u64) as usize];
        let nvar = e.aliases.iter().map(|a| a.1).max().unwrap() + 1;
        for vi in 0..nvar {
            bump(ctx, 1);
            let own = (e.mnemonic_of)(vi);
            if !e.aliases.iter().any(|(m, v)| *v == vi && *m == own) {
                ctx.violation(&format!("{}:alias:mnemonic()-is-none-of-the-variant's-mnemonics", pfx), jobj(&[("enum", jstr(e.name)), ("variant", vi.to_string()), ("got", jbytes(own))]));
            }
            match (e.format)(vi) {
                Ok(text) if is_chardata(&text) && (e.try_from_token)(Token::CharacterProgramData(&text)).ok() == Some(vi) => ctx.count("alias.response-selects-same-variant"),
                other => ctx.violation(&format!("{}:alias:response-text-does-not-select-same-variant", pfx), jobj(&[("enum", jstr(e.name)), ("variant", vi.to_string()), ("response", jstr(&format!("{:?}", other.map(|t| show(&t)).map_err(|x| x.get_code()))))])),
            }
        }
        let mut cands = Vec::new();
        for (m, _) in e.aliases.iter() {
            candidates(rng, m, &mut cands);
            cands.push(m.to_vec());
            cands.push(m.to_ascii_lowercase());
        }
        for c in &cands {
            bump(ctx, 1);
            if c.is_empty() || c.len() > 12 {
                continue;
            }
            let mut want: Option<usize> = None;
            let mut verdict = true;
            for (m, v) in e.aliases.iter() {
                match ref_match(m, c) {
                    None => verdict = false,
                    Some(true) => want = Some(*v),
                    Some(false) => {}
                }
            }
            if !verdict {
                continue;
            }
            ctx.count(if want.is_some() { "alias.candidates.designating-a-variant" } else { "alias.candidates.designating-none" });
            ctx.nontrivial(mix(hash_str(e.name), hash_bytes(c)));
            let got = (e.from_mnemonic)(c);
            let got_t = (e.try_from_token)(Token::CharacterProgramData(c));
            let ok_t = match (&got_t, want) {
                (Ok(i), Some(w)) => *i == w,
                (Err(x), None) => x.get_code() == -224,
                _ => false,
            };
            if got != want || !ok_t {
                ctx.violation(&format!("{}:alias:spelling-selects-wrong-variant-or-none", pfx), jobj(&[("enum", jstr(e.name)), ("aliases", jstr(&format!("{:?}", e.aliases.iter().map(|(m, v)| (show(m), *v)).collect::<Vec<_>>()))), ("datum", jbytes(c)), ("from_mnemonic", jstr(&format!("{:?}", got))), ("try_from", jstr(&format!("{:?}", got_t.map_err(|x| x.get_code())))), ("want", jstr(&format!("{:?}", want)))]));
            }
        }
    });
    rep.add("corpus.enums", corpus.len() as u64);
    rep.add("corpus.variants", corpus.iter().map(|e| e.mnemonics.len() as u64).sum());
}
