//! Shared machine for C13 / C15 / C16: histories of messages against the documented device
//! wiring, in lock-step with RefStatus. The three properties run it with different emphasis.
use crate::fw::*;
use crate::mon::scpidev::*;
use crate::refm::queue::QItem;
use crate::refm::status::*;
use scpi::error::Error;
use scpi::Context;
use scpi_contrib::scpi1999::EventRegister;

#[derive(Clone, Copy, PartialEq, Debug)]
pub enum Focus {
    /// the same machine, observed for what C05 says about the error hook: it sees exactly the error of a failing message, once,
    /// and nothing when the message succeeds - here with the library's own command implementations as handlers
    C05,
    /// the same machine under C10's name: a message of library commands that succeeds is framed exactly, and one whose
    /// answer cannot be written does not succeed
    C10,
    C13,
    C15,
    C16,
}

#[derive(Clone, Copy, Debug, PartialEq)]
enum Reg {
    Oper,
    Ques,
}

#[derive(Clone, Debug)]
enum U {
    Cls,
    Ese(i64, Vec<u8>),
    EseQ,
    Sre(i64, Vec<u8>),
    SreQ,
    EsrQ,
    Idn,
    Opc,
    OpcQ,
    Rst,
    StbQ,
    TstQ,
    Wai,
    Trg,
    EventQ(Reg),
    CondQ(Reg),
    Enab(Reg, i64, Vec<u8>),
    EnabQ(Reg),
    Ptr(Reg, i64, Vec<u8>),
    PtrQ(Reg),
    Ntr(Reg, i64, Vec<u8>),
    NtrQ(Reg),
    Pres,
    ErrNext,
    ErrCount,
    ErrAll,
    Vers,
    Fail(usize),
    Nop,
    NopQ,
    /// invalid unit: text, expected code (None = any command error), description
    Bad(Vec<u8>, Option<i16>, &'static str),
}

fn item_of(e: &Error) -> QItem {
    QItem { code: e.get_code(), msg: e.get_message().to_vec(), ext: e.get_extended().map(|x| x.to_vec()) }
}

fn item_text(i: &QItem) -> Vec<u8> {
    let mut t = format!("{},\"", i.code).into_bytes();
    t.extend_from_slice(&i.msg);
    if let Some(e) = &i.ext {
        t.push(b';');
        t.extend_from_slice(e);
    }
    t.push(b'"');
    t
}

/// numeric parameter: value + spelling (NR1 or non-decimal)
fn num(rng: &mut Rng, v: i64) -> Vec<u8> {
    if v < 0 {
        return format!("{}", v).into_bytes();
    }
    match rng.usize(9) {
        // decimal spellings that denote (or round to) the same integer
        6 => format!("{}.0", v).into_bytes(),
        7 => format!("{}.4", v).into_bytes(),
        8 => format!("{}E0", v).into_bytes(),
        0 => format!("#H{:X}", v).into_bytes(),
        1 => format!("#h{:x}", v).into_bytes(),
        2 => format!("#Q{:o}", v).into_bytes(),
        3 => format!("#B{:b}", v).into_bytes(),
        4 => format!("+{}", v).into_bytes(),
        _ => format!("{}", v).into_bytes(),
    }
}

fn val8(rng: &mut Rng) -> i64 {
    match rng.usize(10) {
        0 => 256,
        1 => -1,
        2 => 255,
        3 => 0,
        4 => 1 << rng.usize(8),
        5 => 300 + rng.usize(70000) as i64,
        _ => rng.usize(256) as i64,
    }
}

fn val16(rng: &mut Rng) -> i64 {
    match rng.usize(12) {
        0 => 65536,
        1 => -1,
        2 => 65535,
        3 => 0,
        4 => 32767,
        5 => 32768,
        6 | 7 => 1 << rng.usize(16),
        8 => 100000 + rng.usize(100000) as i64,
        _ => rng.usize(65536) as i64,
    }
}

fn reg_name(rng: &mut Rng, r: Reg) -> &'static str {
    match r {
        Reg::Oper => *rng.pick(&["OPER", "OPERation", "oper", "operation"]),
        Reg::Ques => *rng.pick(&["QUES", "QUEStionable", "ques", "Questionable"]),
    }
}

fn gen_unit(rng: &mut Rng, focus: Focus) -> U {
    let r = if rng.bool() { Reg::Oper } else { Reg::Ques };
    // weights per focus
    let w = rng.usize(100);
    let (a, b, c) = match focus {
        Focus::C13 | Focus::C05 | Focus::C10 => (45, 60, 80), // queue+errors | registers | common
        Focus::C15 => (10, 80, 90),
        Focus::C16 => (15, 40, 92),
    };
    if w < a {
        // queue / errors
        match rng.usize(12) {
            0 | 1 => U::ErrNext,
            2 => U::ErrCount,
            3 => U::ErrAll,
            4 | 5 | 6 => U::Fail(rng.usize(fail_table().len())),
            7 => U::EsrQ,
            8 => U::Opc,
            9 => U::Nop,
            _ => gen_bad(rng),
        }
    } else if w < b {
        match rng.usize(12) {
            0 | 1 => U::EventQ(r),
            2 => U::CondQ(r),
            3 | 4 => {
                let v = val16(rng);
                U::Enab(r, v, num(rng, v))
            }
            5 => U::EnabQ(r),
            6 => {
                let v = val16(rng);
                U::Ptr(r, v, num(rng, v))
            }
            7 => U::PtrQ(r),
            8 => {
                let v = val16(rng);
                U::Ntr(r, v, num(rng, v))
            }
            9 => U::NtrQ(r),
            10 => U::Pres,
            _ => U::Cls,
        }
    } else if w < c {
        match rng.usize(17) {
            16 => U::Trg,
            0 | 1 | 2 => U::StbQ,
            3 => {
                let v = val8(rng);
                U::Ese(v, num(rng, v))
            }
            4 => U::EseQ,
            5 | 6 => {
                let v = val8(rng);
                U::Sre(v, num(rng, v))
            }
            7 => U::SreQ,
            8 => U::EsrQ,
            9 => U::Cls,
            10 => U::Opc,
            11 => U::OpcQ,
            12 => U::TstQ,
            13 => U::Rst,
            14 => U::Wai,
            _ => U::Idn,
        }
    } else {
        match rng.usize(6) {
            0 => U::Vers,
            1 => U::NopQ,
            2 => U::Nop,
            3 => U::Fail(rng.usize(fail_table().len())),
            _ => gen_bad(rng),
        }
    }
}

fn gen_bad(rng: &mut Rng) -> U {
    let t: &[(&[u8], Option<i16>, &'static str)] = &[
        (b"*ESE", Some(-109), "arity:missing-parameter"),
        (b"*SRE", Some(-109), "arity:missing-parameter"),
        (b"*WAI 1", Some(-108), "arity:parameter-not-allowed"),
        (b"*OPC? 5", Some(-108), "arity:parameter-not-allowed"),
        (b"TEST:NOP 1,2", Some(-108), "arity:parameter-not-allowed"),
        (b"STAT:OPER:ENAB", Some(-109), "arity:missing-parameter"),
        (b"FOO:BAR", Some(-113), "undefined-header"),
        (b"*XYZ", Some(-113), "undefined-header"),
        (b"STAT:OPER:FOO?", Some(-113), "undefined-header"),
        (b"SYST:ERR:NEXT:MORE?", Some(-113), "undefined-header"),
        // headers that would only be defined if some node of the library's status/system trees were optional that is not
        (b"STAT:EVEN?", Some(-113), "undefined-header"),
        (b"STAT:COND?", Some(-113), "undefined-header"),
        (b"STAT:ENAB?", Some(-113), "undefined-header"),
        (b"STAT:PTR 1", Some(-113), "undefined-header"),
        (b"STAT:NTR?", Some(-113), "undefined-header"),
        (b"OPER:EVEN?", Some(-113), "undefined-header"),
        (b"QUES:COND?", Some(-113), "undefined-header"),
        (b"OPER?", Some(-113), "undefined-header"),
        (b"EVEN?", Some(-113), "undefined-header"),
        (b"COND?", Some(-113), "undefined-header"),
        (b"ENAB 1", Some(-113), "undefined-header"),
        (b"ERR?", Some(-113), "undefined-header"),
        (b"ERR:NEXT?", Some(-113), "undefined-header"),
        (b"SYST:NEXT?", Some(-113), "undefined-header"),
        (b"SYST:COUN?", Some(-113), "undefined-header"),
        (b"SYST:ALL?", Some(-113), "undefined-header"),
        (b"NEXT?", Some(-113), "undefined-header"),
        (b"VERS?", Some(-113), "undefined-header"),
        (b"PRES", Some(-113), "undefined-header"),
        (b"STAT:OPER:PRES", Some(-113), "undefined-header"),
        (b"STAT?", Some(-113), "undefined-header"),
        (b"SYST?", Some(-113), "undefined-header"),
        (b"TEST?", Some(-113), "undefined-header"),
        (b"FAIL 1", Some(-113), "undefined-header"),
        (b"SYST:ERR:NEXT:COUN?", Some(-113), "undefined-header"),
        (b"*ESE 'x'", None, "type"),
        (b"*SRE (1)", None, "type"),
        (b"STAT:QUES:PTR \"1\"", None, "type"),
        (b"*ESE 1 V", None, "type:suffix"),
        (b"*ESE 1 2", None, "syntax:missing-separator"),
        (b"*ESE 'abc", None, "syntax:unterminated-string"),
        (b"STAT::OPER?", None, "syntax:doubled-colon"),
        (b"*ESE #", None, "syntax:bad-block"),
        (b"ABCDEFGHIJKLMNOP", None, "syntax:mnemonic-too-long"),
        (b"*IDN?\xff", None, "syntax:non-ascii"),
        (b"TEST:FAIL 1000", Some(-224), "range:handler"),
    ];
    let (a, b, c) = *rng.pick(t);
    U::Bad(a.to_vec(), b, c)
}

fn render(rng: &mut Rng, u: &U) -> Vec<u8> {
    let stat = |rng: &mut Rng| *rng.pick(&["STAT", "STATus", "stat", ":STAT", ":status"]);
    let syst = |rng: &mut Rng| *rng.pick(&["SYST", "SYSTem", "syst", ":SYST"]);
    let mut s = String::new();
    let mut tail: Vec<u8> = vec![];
    match u {
        U::Cls => s += *rng.pick(&["*CLS", "*cls"]),
        U::Ese(_, t) => {
            s += *rng.pick(&["*ESE ", "*ese "]);
            tail = t.clone()
        }
        U::EseQ => s += "*ESE?",
        U::Sre(_, t) => {
            s += *rng.pick(&["*SRE ", "*sre\t"]);
            tail = t.clone()
        }
        U::SreQ => s += "*SRE?",
        U::EsrQ => s += *rng.pick(&["*ESR?", "*esr?"]),
        U::Idn => s += "*IDN?",
        U::Opc => s += "*OPC",
        U::OpcQ => s += "*OPC?",
        U::Rst => s += "*RST",
        U::StbQ => s += *rng.pick(&["*STB?", "*stb?"]),
        U::TstQ => s += "*TST?",
        U::Wai => s += "*WAI",
        U::Trg => s += *rng.pick(&["*TRG", "*trg"]),
        U::EventQ(r) => {
            let form = *rng.pick(&["", ":EVEN", ":EVENt", ":even"]);
            s += &format!("{}:{}{}?", stat(rng), reg_name(rng, *r), form);
        }
        U::CondQ(r) => s += &format!("{}:{}:{}?", stat(rng), reg_name(rng, *r), *rng.pick(&["COND", "CONDition", "cond"])),
        U::Enab(r, _, t) => {
            s += &format!("{}:{}:{} ", stat(rng), reg_name(rng, *r), *rng.pick(&["ENAB", "ENABle", "enab"]));
            tail = t.clone()
        }
        U::EnabQ(r) => s += &format!("{}:{}:{}?", stat(rng), reg_name(rng, *r), *rng.pick(&["ENAB", "ENABle"])),
        U::Ptr(r, _, t) => {
            s += &format!("{}:{}:{} ", stat(rng), reg_name(rng, *r), *rng.pick(&["PTR", "PTRansition", "ptr"]));
            tail = t.clone()
        }
        U::PtrQ(r) => s += &format!("{}:{}:{}?", stat(rng), reg_name(rng, *r), *rng.pick(&["PTR", "PTRansition"])),
        U::Ntr(r, _, t) => {
            s += &format!("{}:{}:{} ", stat(rng), reg_name(rng, *r), *rng.pick(&["NTR", "NTRansition", "ntr"]));
            tail = t.clone()
        }
        U::NtrQ(r) => s += &format!("{}:{}:{}?", stat(rng), reg_name(rng, *r), *rng.pick(&["NTR", "NTRansition"])),
        U::Pres => s += &format!("{}:{}", stat(rng), *rng.pick(&["PRES", "PRESet", "pres"])),
        U::ErrNext => s += &format!("{}:{}{}?", syst(rng), *rng.pick(&["ERR", "ERRor", "err"]), *rng.pick(&["", ":NEXT", ":next"])),
        U::ErrCount => s += &format!("{}:{}:{}?", syst(rng), *rng.pick(&["ERR", "ERRor"]), *rng.pick(&["COUN", "COUNt", "coun"])),
        U::ErrAll => s += &format!("{}:{}:{}?", syst(rng), *rng.pick(&["ERR", "ERRor"]), *rng.pick(&["ALL", "all"])),
        U::Vers => s += &format!("{}:{}?", syst(rng), *rng.pick(&["VERS", "VERSion"])),
        U::Fail(n) => s += &format!(":TEST:FAIL{} {}", if rng.bool() { "" } else { "?" }, n),
        U::Nop => s += ":TEST:NOP",
        U::NopQ => s += ":TEST:NOP?",
        U::Bad(t, _, _) => {
            let mut v = Vec::new();
            if t[0] != b'*' {
                v.push(b':');
            }
            v.extend_from_slice(t);
            return v;
        }
    }
    let mut v = s.into_bytes();
    v.extend_from_slice(&tail);
    v
}

enum Out {
    Ok(Option<Vec<u8>>),
    /// expected failure: exact code or "any command error"; optionally the exact error object
    Fail(Option<i16>, Option<Error>),
}

fn parse_param(v: i64, max: i64) -> Result<u16, ()> {
    if v < 0 || v > max {
        Err(())
    } else {
        Ok(v as u16)
    }
}

fn apply(m: &mut RefStatus, u: &U, mav: bool, tst: Option<Error>, trg: Option<Error>) -> (Out, Option<(Vec<u8>, Vec<u8>)>) {
    // second return: alternative acceptable response (for *STB? when the two summary definitions differ)
    let reg = |m: &mut RefStatus, r: Reg| -> *mut RegSet {
        match r {
            Reg::Oper => &mut m.oper,
            Reg::Ques => &mut m.ques,
        }
    };
    let n = |x: u64| Out::Ok(Some(x.to_string().into_bytes()));
    let mut alt = None;
    let out = match u {
        U::Cls => {
            m.cls();
            Out::Ok(None)
        }
        U::Ese(v, _) => match parse_param(*v, 255) {
            Ok(x) => {
                m.ese = x as u8;
                Out::Ok(None)
            }
            Err(()) => Out::Fail(Some(-222), None),
        },
        U::EseQ => n(m.ese as u64),
        U::Sre(v, _) => match parse_param(*v, 255) {
            Ok(x) => {
                m.sre = x as u8;
                Out::Ok(None)
            }
            Err(()) => Out::Fail(Some(-222), None),
        },
        U::SreQ => n(m.sre as u64),
        U::EsrQ => {
            let x = m.esr;
            m.esr = 0;
            n(x as u64)
        }
        U::Idn => Out::Ok(Some(m.idn.to_vec())),
        U::Opc => {
            m.esr |= 0x01;
            m.queue.push(QItem { code: -800, msg: b"Operation complete".to_vec(), ext: None });
            Out::Ok(None)
        }
        U::OpcQ => Out::Ok(Some(b"1".to_vec())),
        U::Rst | U::Wai | U::Nop => Out::Ok(None),
        // a bus trigger the device refuses fails its message like any handler error; one it accepts changes no status
        U::Trg => match trg {
            None => Out::Ok(None),
            Some(e) => Out::Fail(Some(e.get_code()), Some(e)),
        },
        U::NopQ => Out::Ok(Some(b"7".to_vec())),
        U::StbQ => {
            let a = m.stb(mav, false);
            let b = m.stb(mav, true);
            if a != b {
                alt = Some((a.to_string().into_bytes(), b.to_string().into_bytes()));
            }
            n(a as u64)
        }
        U::TstQ => Out::Ok(Some(match tst {
            None => b"0".to_vec(),
            Some(e) => e.get_code().to_string().into_bytes(),
        })),
        U::EventQ(r) => {
            let p = unsafe { &mut *reg(m, *r) };
            let x = p.event & 0x7fff;
            p.event = 0;
            n(x as u64)
        }
        U::CondQ(r) => n((unsafe { &*reg(m, *r) }.cond & 0x7fff) as u64),
        U::Enab(r, v, _) => match parse_param(*v, 65535) {
            Ok(x) => {
                unsafe { &mut *reg(m, *r) }.enable = x;
                Out::Ok(None)
            }
            Err(()) => Out::Fail(Some(-222), None),
        },
        U::EnabQ(r) => n((unsafe { &*reg(m, *r) }.enable & 0x7fff) as u64),
        U::Ptr(r, v, _) => match parse_param(*v, 65535) {
            Ok(x) => {
                unsafe { &mut *reg(m, *r) }.ptr = x;
                Out::Ok(None)
            }
            Err(()) => Out::Fail(Some(-222), None),
        },
        U::PtrQ(r) => n((unsafe { &*reg(m, *r) }.ptr & 0x7fff) as u64),
        U::Ntr(r, v, _) => match parse_param(*v, 65535) {
            Ok(x) => {
                unsafe { &mut *reg(m, *r) }.ntr = x;
                Out::Ok(None)
            }
            Err(()) => Out::Fail(Some(-222), None),
        },
        U::NtrQ(r) => n((unsafe { &*reg(m, *r) }.ntr & 0x7fff) as u64),
        U::Pres => {
            m.oper.preset();
            m.ques.preset();
            Out::Ok(None)
        }
        U::ErrNext => Out::Ok(Some(match m.queue.pop() {
            Some(i) => item_text(&i),
            None => b"0,\"No error\"".to_vec(),
        })),
        U::ErrCount => n(m.queue.len() as u64),
        U::ErrAll => {
            if m.queue.len() == 0 {
                Out::Ok(Some(b"0,\"No error\"".to_vec()))
            } else {
                let mut t = vec![];
                let mut first = true;
                while let Some(i) = m.queue.pop() {
                    if !first {
                        t.push(b',');
                    }
                    first = false;
                    t.extend_from_slice(&item_text(&i));
                }
                Out::Ok(Some(t))
            }
        }
        U::Vers => Out::Ok(Some(b"1999.0".to_vec())),
        U::Fail(k) => {
            let e = fail_table()[*k];
            Out::Fail(Some(e.get_code()), Some(e))
        }
        U::Bad(_, code, _) => Out::Fail(*code, None),
    };
    (out, alt)
}

fn unit_name(u: &U) -> String {
    match u {
        U::Ese(..) => "*ESE".into(),
        U::Sre(..) => "*SRE".into(),
        U::Enab(..) => "ENABle".into(),
        U::Ptr(..) => "PTRansition".into(),
        U::Ntr(..) => "NTRansition".into(),
        U::EventQ(_) => "EVENt?".into(),
        U::CondQ(_) => "CONDition?".into(),
        U::EnabQ(_) => "ENABle?".into(),
        U::PtrQ(_) => "PTRansition?".into(),
        U::NtrQ(_) => "NTRansition?".into(),
        U::Fail(_) => "handler-error".into(),
        U::Bad(_, _, d) => format!("invalid({})", d.split(':').next().unwrap()),
        other => format!("{:?}", other),
    }
}

/// The same message through the genuine fixed-capacity formatter `ArrayVec<u8, CAP>` (CAP 0..=49).
fn run_fixed<D: scpi::Device>(cap: usize, root: &scpi::tree::Node<D>, msg: &[u8], dev: &mut D, ctx: &mut Context) -> (scpi::error::Result<()>, Vec<u8>) {
    fn go<D: scpi::Device, const CAP: usize>(root: &scpi::tree::Node<D>, msg: &[u8], dev: &mut D, ctx: &mut Context) -> (scpi::error::Result<()>, Vec<u8>) {
        let mut f: arrayvec::ArrayVec<u8, CAP> = arrayvec::ArrayVec::new();
        let r = root.run(msg, dev, ctx, &mut f);
        (r, f.as_slice().to_vec())
    }
    match cap {
        0 => go::<D, 0>(root, msg, dev, ctx),
        1 => go::<D, 1>(root, msg, dev, ctx),
        2 => go::<D, 2>(root, msg, dev, ctx),
        3 => go::<D, 3>(root, msg, dev, ctx),
        4 => go::<D, 4>(root, msg, dev, ctx),
        5 => go::<D, 5>(root, msg, dev, ctx),
        6 => go::<D, 6>(root, msg, dev, ctx),
        7 => go::<D, 7>(root, msg, dev, ctx),
        8 => go::<D, 8>(root, msg, dev, ctx),
        9 => go::<D, 9>(root, msg, dev, ctx),
        10 => go::<D, 10>(root, msg, dev, ctx),
        11 => go::<D, 11>(root, msg, dev, ctx),
        12 => go::<D, 12>(root, msg, dev, ctx),
        13 => go::<D, 13>(root, msg, dev, ctx),
        14 => go::<D, 14>(root, msg, dev, ctx),
        15 => go::<D, 15>(root, msg, dev, ctx),
        16 => go::<D, 16>(root, msg, dev, ctx),
        17 => go::<D, 17>(root, msg, dev, ctx),
        18 => go::<D, 18>(root, msg, dev, ctx),
        19 => go::<D, 19>(root, msg, dev, ctx),
        20 => go::<D, 20>(root, msg, dev, ctx),
        21 => go::<D, 21>(root, msg, dev, ctx),
        22 => go::<D, 22>(root, msg, dev, ctx),
        23 => go::<D, 23>(root, msg, dev, ctx),
        24 => go::<D, 24>(root, msg, dev, ctx),
        25 => go::<D, 25>(root, msg, dev, ctx),
        26 => go::<D, 26>(root, msg, dev, ctx),
        27 => go::<D, 27>(root, msg, dev, ctx),
        28 => go::<D, 28>(root, msg, dev, ctx),
        29 => go::<D, 29>(root, msg, dev, ctx),
        30 => go::<D, 30>(root, msg, dev, ctx),
        31 => go::<D, 31>(root, msg, dev, ctx),
        32 => go::<D, 32>(root, msg, dev, ctx),
        33 => go::<D, 33>(root, msg, dev, ctx),
        34 => go::<D, 34>(root, msg, dev, ctx),
        35 => go::<D, 35>(root, msg, dev, ctx),
        36 => go::<D, 36>(root, msg, dev, ctx),
        37 => go::<D, 37>(root, msg, dev, ctx),
        38 => go::<D, 38>(root, msg, dev, ctx),
        39 => go::<D, 39>(root, msg, dev, ctx),
        40 => go::<D, 40>(root, msg, dev, ctx),
        41 => go::<D, 41>(root, msg, dev, ctx),
        42 => go::<D, 42>(root, msg, dev, ctx),
        43 => go::<D, 43>(root, msg, dev, ctx),
        44 => go::<D, 44>(root, msg, dev, ctx),
        45 => go::<D, 45>(root, msg, dev, ctx),
        46 => go::<D, 46>(root, msg, dev, ctx),
        47 => go::<D, 47>(root, msg, dev, ctx),
        48 => go::<D, 48>(root, msg, dev, ctx),
        49 => go::<D, 49>(root, msg, dev, ctx),
        _ => unreachable!("capacity not instantiated"),
    }
}

fn run_history<Q: QueueBackend + 'static>(rng: &mut Rng, ctx: &mut Ctx, focus: Focus) {
    // the documented flat tree, or the common commands kept in an optional branch below the root (they "resolve at the root" all the same)
    let nested = rng.chance(1, 4);
    let typed = !nested && rng.chance(1, 4);
    let tree = if nested {
        &<StdDev<Q> as HasTree>::TREE_NESTED
    } else if typed {
        // the STATus subsystem assembled from the documented per-register command types instead of the macro
        ctx.count("histories.status-tree-assembled-from-the-command-types");
        &<StdDev<Q> as HasTree>::TREE_TYPED
    } else {
        &<StdDev<Q> as HasTree>::TREE
    };
    if nested {
        ctx.count("histories.common-commands-in-an-optional-branch");
    }
    let mut dev: StdDev<Q> = StdDev::new();
    let mut m = RefStatus::new(Q::CAP);
    if typed {
        // this tree's *IDN? has empty manufacturer and serial-number fields (allowed: "ASCII character 0" or nothing)
        m.idn = b",HARNESS,,1";
    }
    let p = format!("{:?}", focus);
    let long = if rng.chance(1, 10) { 196 } else { 56 };
    let nsteps = if ctx.cfg.tiny { 10 + rng.usize(15) } else { 5 + rng.usize(long) };
    dev.tst = if rng.chance(1, 3) { Some(*rng.pick(fail_table())) } else { None };
    dev.trg = if rng.chance(1, 3) { Some(*rng.pick(fail_table())) } else { None };
    let mut trace: Vec<String> = vec![];
    let mut hh = hash_str(Q::NAME);
    // one Context for the whole history, as an interface keeps it: its message-available flag is whatever the
    // interface last reported (it is not re-assigned before every message)
    let mut c = Context::default();
    let mut cur_mav = false;
    let mut flood_pending: Option<u8> = None;
    for step in 0..nsteps {
        bump(ctx, 1);
        // device code presetting one of the mandatory registers through the public helper of the ScpiDevice trait (what a
        // device that overrides ScpiDevice::preset() to add registers of its own calls for OPERation and QUEStionable)
        if rng.chance(1, 25) {
            use scpi_contrib::scpi1999::ScpiDevice;
            if rng.bool() {
                dev.preset_register::<scpi_contrib::scpi1999::status::operation::Operation>();
                m.oper.preset();
                trace.push("[dev preset_register::<Operation>()]".into());
            } else {
                dev.preset_register::<scpi_contrib::scpi1999::status::questionable::Questionable>();
                m.ques.preset();
                trace.push("[dev preset_register::<Questionable>()]".into());
            }
            ctx.count("device-side.preset_register-helper");
        }
        // a device-detected error reported through ScpiDevice::push_error (not the result of a message): queued and flagged
        if rng.chance(1, 25) {
            use scpi_contrib::scpi1999::ScpiDevice;
            let e = *rng.pick(fail_table());
            dev.push_error(e);
            m.record_error(item_of(&e));
            trace.push(format!("[dev push_error({})]", e.get_code()));
            ctx.count("device-side.push_error-helper");
        }
        // device-side condition changes
        if rng.chance(if focus == Focus::C15 { 2 } else { 1 }, 5) {
            let which = if rng.bool() { Reg::Oper } else { Reg::Ques };
            let x: u16 = match rng.usize(6) {
                0 => 1 << rng.usize(16),
                1 => !(1 << rng.usize(16)),
                2 => 0,
                3 => 0xffff,
                _ => rng.next() as u16,
            };
            let (dr, mr): (&mut EventRegister, &mut RegSet) = match which {
                Reg::Oper => (&mut dev.operation, &mut m.oper),
                Reg::Ques => (&mut dev.questionable, &mut m.ques),
            };
            match rng.usize(5) {
                4 => {
                    // the register's own housekeeping calls, as device code uses them
                    if rng.bool() {
                        dr.clear_event();
                        mr.event = 0;
                        trace.push(format!("[dev {:?} clear_event()]", which));
                    } else {
                        dr.preset();
                        mr.preset();
                        trace.push(format!("[dev {:?} preset()]", which));
                    }
                }
                0 => {
                    dr.set_condition_bits(x);
                    let nv = mr.cond | x;
                    mr.set_condition(nv);
                    trace.push(format!("[dev {:?} set_bits {:#06x}]", which, x));
                }
                1 => {
                    dr.clear_condition_bits(x);
                    let nv = mr.cond & !x;
                    mr.set_condition(nv);
                    trace.push(format!("[dev {:?} clear_bits {:#06x}]", which, x));
                }
                _ => {
                    dr.set_condition(x);
                    mr.set_condition(x);
                    trace.push(format!("[dev {:?} set_condition {:#06x}]", which, x));
                }
            }
            ctx.count("device-side.condition-updates");
            // the device-side read accessors agree with the model (and change nothing)
            let mask: u16 = if rng.bool() { 1 << rng.usize(16) } else { rng.next() as u16 };
            if dr.get_condition_bit(mask) != (mr.cond & mask != 0) {
                ctx.violation(&format!("{}:device-side-condition-accessor-differs", p), jobj(&[("mask", format!("\"{:#06x}\"", mask)), ("condition", format!("\"{:#06x}\"", mr.cond))]));
                return;
            }
            // double toggle between reads now and then
            if rng.chance(1, 6) {
                dr.set_condition(!x);
                mr.set_condition(!x);
                dr.set_condition(x);
                mr.set_condition(x);
                trace.push(format!("[dev {:?} toggle twice]", which));
            }
        }
        // one message of 1..4 units; now and then a flood of failing messages to fill the queue far beyond any small counter
        let mu = if rng.chance(1, 4) { 4 } else { 2 };
        let nun = 1 + rng.usize(mu);
        let flood = step == 2 && !ctx.cfg.tiny && rng.chance(1, 40);
        // how many failures pile up unread: 300 as a rule; on growable queues now and then a backlog around the limits of
        // 12/16/17-bit counters (a controller that never reads SYSTem:ERRor?), which COUNt? / ALL? must still report exactly
        let flood_n: usize = if !flood || Q::CAP.is_some() {
            300
        } else {
            // (the library's Vec<Error> queue pops with remove(0): draining a six-figure backlog from it costs minutes, so the
            // large backlogs go to the VecDeque queue; the commands under test are the same generic code)
            let deque = Q::NAME.contains("Deque");
            match rng.usize(100) {
                0..=9 => 4090 + rng.usize(12),
                10..=12 if deque => 65_530 + rng.usize(14),
                13..=14 if deque => 131_066 + rng.usize(14),
                _ => 300,
            }
        };
        // straight after a backlog the controller asks how much there is, reads some, then all
        let after_flood = flood_pending.take();
        let units: Vec<U> = if flood {
            vec![U::Fail(rng.usize(fail_table().len()))]
        } else if let Some(k) = after_flood {
            match k {
                0 => vec![U::ErrCount],
                1 => vec![U::ErrNext, U::ErrCount],
                _ => vec![U::ErrAll, U::ErrCount],
            }
        } else {
            (0..nun).map(|_| gen_unit(rng, focus)).collect()
        };
        if flood {
            flood_pending = Some(0);
        } else if let Some(k) = after_flood {
            if k < 2 {
                flood_pending = Some(k + 1);
            }
        }
        if flood {
            ctx.count(&format!("histories.with-error-flood({})", if flood_n == 300 { "300" } else if flood_n < 5000 { "~4096" } else if flood_n < 70_000 { "~65536" } else { "~131072" }));
            for _ in 0..flood_n {
                let k = rng.usize(fail_table().len());
                let e = fail_table()[k];
                let msg = format!(":TEST:FAIL {}", k);
                let mut c = Context::default();
                let mut resp: Vec<u8> = Vec::new();
                let r = tree.run(msg.as_bytes(), &mut dev, &mut c, &mut resp);
                if r != Err(e) {
                    ctx.violation(&format!("{}:wrong-error-returned:handler-error", p), jobj(&[("message", jstr(&msg)), ("result", jstr(&format!("{:?}", r)))]));
                    return;
                }
                m.record_error(item_of(&e));
            }
            trace.push(format!("[{} x :TEST:FAIL n]", flood_n));
        }
        let mut msg: Vec<u8> = vec![];
        for (i, u) in units.iter().enumerate() {
            if i > 0 {
                msg.extend_from_slice(*rng.pick(&[&b";"[..], b"; ", b" ;"]));
            }
            let mut t = render(rng, u);
            // units after the first must not depend on the header path: make them absolute (or common)
            if i > 0 && t[0] != b'*' && t[0] != b':' {
                t.insert(0, b':');
            }
            msg.extend_from_slice(&t);
        }
        if rng.chance(1, 3) {
            msg.push(b'\n');
        }
        let mav = if rng.chance(2, 3) {
            cur_mav = rng.bool();
            c.mav = cur_mav;
            cur_mav
        } else {
            ctx.count("messages.context-reused-without-touching-mav");
            cur_mav
        };
        // model
        let mut want_resp: Vec<u8> = vec![];
        let mut alts: Vec<(usize, Vec<u8>, Vec<u8>)> = vec![];
        let mut want_fail: Option<(Option<i16>, Option<Error>, String)> = None;
        let before = m.clone();
        for u in &units {
            let (o, alt) = apply(&mut m, u, mav, dev.tst, dev.trg);
            match o {
                Out::Ok(None) => {}
                Out::Ok(Some(t)) => {
                    if !want_resp.is_empty() {
                        want_resp.push(b';');
                    }
                    if let Some((a, b)) = alt {
                        alts.push((want_resp.len(), a, b));
                    }
                    want_resp.extend_from_slice(&t);
                }
                Out::Fail(c, e) => {
                    want_fail = Some((c, e, unit_name(u)));
                    break;
                }
            }
            hh = mix(hh, hash_str(&unit_name(u)));
        }
        if !want_resp.is_empty() {
            want_resp.push(b'\n');
        }
        // run: growable response buffer, or now and then the fixed-capacity one sized so that everything fits exactly,
        // or so that only the terminator does not (then every unit has run and the message fails with -225, which is
        // queued and flagged like any other failure)
        // a single query whose answer does not fit at all: the handler's own write fails. That the message fails with -225 and
        // that -225 is queued and flagged is required; what a destructive read has consumed by then is not specified (the
        // model takes over the device's queue / ESR / event registers afterwards)
        let tiny: Option<usize> = if want_fail.is_none() && alts.is_empty() && units.len() == 1 && want_resp.len() >= 3 && want_resp.len() <= 49 && rng.chance(1, 12) { Some(rng.usize(want_resp.len() - 1)) } else { None };
        if let Some(cap) = tiny {
            ctx.count("messages.fixed-capacity-buffer.answer-does-not-fit");
            let (r, _resp) = run_fixed(cap, tree, &msg, &mut dev, &mut c);
            trace.push(format!("{} [capacity {}]", show(&msg), cap));
            let q: Vec<QItem> = dev.errors.snapshot().iter().map(item_of).collect();
            let queued = q.last().map_or(false, |i| i.code == -225 || i.code == -350);
            if !matches!(&r, Err(e) if e.get_code() == -225) || !queued || dev.esr & 0x10 == 0 {
                ctx.violation(&format!("{}:answer-does-not-fit-but-not-reported-queued-and-flagged:{}", p, unit_name(&units[0])), jobj(&[("queue_backend", jstr(Q::NAME)), ("message", jbytes(&msg)), ("capacity", cap.to_string()), ("result", jstr(&format!("{:?}", r.as_ref().map_err(|e| e.get_code())))), ("queue_codes", jstr(&format!("{:?}", q.iter().map(|i| i.code).collect::<Vec<_>>()))), ("esr", dev.esr.to_string())]));
                return;
            }
            // whatever the failed read consumed, it consumed from the front: what is left is a suffix of the queue as it was,
            // in the same order, followed by the -225 of this message (growable queues; a bounded one may also have overflowed)
            if Q::CAP.is_none() {
                let was: Vec<QItem> = before.queue.q.iter().cloned().collect();
                let left = &q[..q.len() - 1];
                let is_suffix = left.len() <= was.len() && was[was.len() - left.len()..] == *left;
                if !is_suffix {
                    ctx.violation(&format!("{}:failed-queue-read-reorders-or-duplicates-entries:{}", p, unit_name(&units[0])), jobj(&[("queue_backend", jstr(Q::NAME)), ("message", jbytes(&msg)), ("capacity", cap.to_string()), ("queue_codes_before", jstr(&format!("{:?}", was.iter().map(|i| i.code).collect::<Vec<_>>()))), ("queue_codes_after", jstr(&format!("{:?}", q.iter().map(|i| i.code).collect::<Vec<_>>())))]));
                    return;
                }
                ctx.count("messages.fixed-capacity-buffer.answer-does-not-fit.queue-order-checked");
            }
            m.queue.q.clear();
            for it in q {
                m.queue.q.push_back(it);
            }
            m.esr = dev.esr;
            m.oper.event = dev.operation.event;
            m.ques.event = dev.questionable.event;
            continue;
        }
        let fixed: Option<usize> = if want_fail.is_none() && alts.is_empty() && !want_resp.is_empty() && want_resp.len() <= 49 && rng.chance(1, 6) { Some(if rng.chance(1, 3) { want_resp.len() } else { want_resp.len() - 1 }) } else { None };
        // now and then the response buffer still holds an earlier, unread response (one output buffer per connection,
        // drained when the controller reads): what the library writes behind it is not judged here, but the message's
        // effect on queue and registers is the same as with an empty buffer
        let leftover = fixed.is_none() && rng.chance(1, 10);
        let (r, resp) = match fixed {
            None => {
                let mut resp: Vec<u8> = if leftover { b"7\n".to_vec() } else { Vec::new() };
                if leftover {
                    ctx.count("messages.response-buffer-not-empty-at-start");
                }
                let r = tree.run(&msg, &mut dev, &mut c, &mut resp);
                (r, resp)
            }
            Some(cap) => {
                ctx.count(if cap == want_resp.len() { "messages.fixed-capacity-buffer.exact-fit" } else { "messages.fixed-capacity-buffer.terminator-does-not-fit" });
                run_fixed(cap, tree, &msg, &mut dev, &mut c)
            }
        };
        if let Some(cap) = fixed {
            if cap < want_resp.len() {
                want_fail = Some((Some(-225), Some(Error::new(scpi::error::ErrorCode::OutOfMemory)), "response-buffer-full".to_string()));
                // the answers themselves fitted
                want_resp.pop();
                want_resp.push(b'\n');
            }
        }
        trace.push(format!("{}{}", show(&msg), if mav { " [mav]" } else { "" }));
        if trace.len() > 14 {
            trace.remove(0);
        }
        // name the most telling unit of the message for the signature (the whole message is in the detail)
        let names: Vec<String> = units.iter().map(unit_name).collect();
        let last = ["Cls", "Pres", "Opc", "handler-error"].iter().find(|k| names.iter().any(|n| n == *k)).map(|k| k.to_string()).unwrap_or_else(|| names.iter().find(|n| n.starts_with("invalid")).cloned().unwrap_or_else(|| names.last().unwrap().clone()));
        let detail = |what: &str, exp: String, got: String| jobj(&[("queue_backend", jstr(Q::NAME)), ("step", step.to_string()), ("differs", jstr(what)), ("expected", jstr(&exp)), ("observed", jstr(&got)), ("message", jbytes(&msg)), ("mav", mav.to_string()), ("recent_history", jstr(&trace.join("  |  ")))]);
        // result
        match (&r, &want_fail) {
            (Ok(()), None) => {
                // response
                let mut ok = resp == want_resp || leftover;
                if !ok && !alts.is_empty() {
                    // accept the SCPI-99 (event based) summary definition for *STB? as well
                    let mut alt_resp = want_resp.clone();
                    for (pos, a, b) in alts.iter().rev() {
                        alt_resp.splice(*pos..*pos + a.len(), b.iter().copied());
                    }
                    ok = resp == alt_resp;
                    ctx.count("stb.summary-definitions-differ(no-verdict-on-choice)");
                }
                if !ok {
                    // which unit's answer differs
                    // first response unit whose text differs
                    let got_units: Vec<&[u8]> = resp.strip_suffix(b"\n").unwrap_or(&resp).split(|c| *c == b';').collect();
                    let want_units: Vec<&[u8]> = want_resp.strip_suffix(b"\n").unwrap_or(&want_resp).split(|c| *c == b';').collect();
                    let k = got_units.iter().zip(want_units.iter()).position(|(a, b)| a != b).unwrap_or(got_units.len().min(want_units.len()));
                    let mut scratch = before.clone();
                    let answering: Vec<String> = units.iter().filter(|u| matches!(apply(&mut scratch, u, mav, dev.tst, dev.trg).0, Out::Ok(Some(_)))).map(unit_name).collect();
                    let which = if resp.len() + 1 == want_resp.len() || resp.len() == want_resp.len() + 1 { "terminator".to_string() } else { answering.get(k).cloned().unwrap_or_else(|| "?".into()) };
                    ctx.violation(&format!("{}:response-differs:{}", p, which), detail("response", show(&want_resp), show(&resp)));
                    return;
                }
                ctx.count("messages.ok");
            }
            (Err(e), Some((code, exact, uname))) => {
                let code_ok = match code {
                    Some(c) => e.get_code() == *c,
                    None => (-199..=-100).contains(&e.get_code()),
                };
                if !code_ok || exact.map_or(false, |x| x != *e) {
                    ctx.violation(&format!("{}:wrong-error-returned:{}", p, uname), detail("result", format!("{:?} {:?}", code, exact), format!("{:?}", e)));
                    return;
                }
                // what the queries executed before the failing unit returned (and, for SYST:ERR? / *ESR? / event
                // reads, removed from the device) must still be in the output buffer: an answer that is discarded
                // after its destructive read is an item lost unread
                if want_resp.len() > 1 && !leftover {
                    let prefix = &want_resp[..want_resp.len() - 1];
                    let mut ok = resp.starts_with(prefix);
                    if !ok && !alts.is_empty() {
                        let mut alt_resp = want_resp.clone();
                        for (pos, a, b) in alts.iter().rev() {
                            alt_resp.splice(*pos..*pos + a.len(), b.iter().copied());
                        }
                        ok = resp.starts_with(&alt_resp[..alt_resp.len() - 1]);
                    }
                    ctx.count("messages.failed-after-earlier-answers");
                    if !ok {
                        ctx.violation(&format!("{}:answers-of-units-before-the-failing-unit-lost:{}", p, uname), detail("response of the units executed before the failure", show(prefix), show(&resp)));
                        return;
                    }
                }
                // documented wiring: exactly this error is queued, its class bit set
                m.record_error(item_of(e));
                ctx.count(&format!("messages.failed.{}", uname));
            }
            (Ok(()), Some((code, _, uname))) => {
                ctx.violation(&format!("{}:failure-expected-but-message-succeeded:{}", p, uname), detail("result", format!("Err({:?})", code), "Ok".into()));
                return;
            }
            (Err(e), None) => {
                ctx.violation(&format!("{}:valid-message-failed:{}:{}", p, last, e.get_code()), detail("result", "Ok".into(), format!("{:?}", e)));
                return;
            }
        }
        // state comparison after every message
        let q: Vec<QItem> = dev.errors.snapshot().iter().map(item_of).collect();
        let mq: Vec<QItem> = m.queue.q.iter().cloned().collect();
        if q != mq {
            let kind = if q.len() > mq.len() { "extra-entries" } else if q.len() < mq.len() { "missing-entries" } else { "different-entries" };
            ctx.violation(&format!("{}:queue-differs:{}:after-{}", p, kind, last), detail("error queue", format!("{:?}", mq.iter().map(|i| i.code).collect::<Vec<_>>()), format!("{:?}", q.iter().map(|i| i.code).collect::<Vec<_>>())));
            return;
        }
        if dev.esr != m.esr {
            ctx.violation(&format!("{}:esr-differs:after-{}", p, last), detail("ESR", format!("{:#04x}", m.esr), format!("{:#04x}", dev.esr)));
            return;
        }
        if dev.ese != m.ese || dev.sre != m.sre {
            ctx.violation(&format!("{}:ese-or-sre-differs:after-{}", p, last), detail("ESE/SRE", format!("{:#04x}/{:#04x}", m.ese, m.sre), format!("{:#04x}/{:#04x}", dev.ese, dev.sre)));
            return;
        }
        for (nm, d, r) in [("OPERation", &dev.operation, &m.oper), ("QUEStionable", &dev.questionable, &m.ques)] {
            let pairs = [("condition", d.condition, r.cond), ("event", d.event, r.event), ("enable", d.enable, r.enable), ("ptr", d.ptr_filter, r.ptr), ("ntr", d.ntr_filter, r.ntr)];
            for (f, a, b) in pairs {
                // bit 15 of every register is unobservable through the commands (always reported clear, excluded
                // from the summary): whether an implementation stores or drops it is not judged
                if a & 0x7fff != b & 0x7fff {
                    ctx.violation(&format!("{}:register-differs:{}:after-{}", p, f, last), detail(&format!("{} {}", nm, f), format!("{:#06x}", b), format!("{:#06x}", a)));
                    return;
                }
            }
        }
        ctx.count("states.compared");
    }
    ctx.nontrivial(hh);
    ctx.count(&format!("backend.{}", Q::NAME));
    let t = trace;
    ctx.sample(|| jobj(&[("queue_backend", jstr(Q::NAME)), ("last_messages_of_history", jstr(&t.join("  |  ")))]));
}

// ---- a plain IEEE 488.2 device: implements only `IEEE4882` (no SCPI status structures, no error queue) and keeps the
// trait's provided `stb()`. Its status byte has ESB (bit 5), MAV (bit 4, from the interface) and MSS (bit 6 = one of those
// enabled by *SRE); everything else of the C16 statement about *ESE/*SRE/*ESR?/*OPC/*OPC?/*CLS applies unchanged.
pub struct Plain {
    sre: u8,
    ese: u8,
    esr: u8,
}
impl scpi::Device for Plain {
    fn handle_error(&mut self, err: Error) {
        self.esr |= err.esr_mask();
    }
}
impl scpi_contrib::ieee488::IEEE4882 for Plain {
    fn sre(&self) -> u8 {
        self.sre
    }
    fn set_sre(&mut self, value: u8) {
        self.sre = value
    }
    fn esr(&self) -> u8 {
        self.esr
    }
    fn set_esr(&mut self, value: u8) {
        self.esr = value
    }
    fn ese(&self) -> u8 {
        self.ese
    }
    fn set_ese(&mut self, value: u8) {
        self.ese = value
    }
    fn tst(&mut self) -> scpi::error::Result<()> {
        Ok(())
    }
    fn rst(&mut self) -> scpi::error::Result<()> {
        Ok(())
    }
    fn cls(&mut self) -> scpi::error::Result<()> {
        self.esr = 0;
        Ok(())
    }
    fn opc(&mut self) -> scpi::error::Result<()> {
        self.esr |= 1;
        Ok(())
    }
}
const PLAIN_TREE: scpi::tree::Node<'static, Plain> = {
    use scpi::tree::prelude::*;
    use scpi_contrib::{ieee488_cls, ieee488_ese, ieee488_esr, ieee488_opc, ieee488_rst, ieee488_sre, ieee488_stb, ieee488_tst, ieee488_wai};
    Branch { name: b"", default: false, sub: &[ieee488_cls!(), ieee488_ese!(), ieee488_esr!(), ieee488_opc!(), ieee488_rst!(), ieee488_sre!(), ieee488_stb!(), ieee488_tst!(), ieee488_wai!()] }
};

fn plain_history(rng: &mut Rng, ctx: &mut Ctx) {
    let mut dev = Plain { sre: 0, ese: 0, esr: 0 };
    let (mut sre, mut ese, mut esr) = (0u8, 0u8, 0u8);
    let mut c = Context::default();
    let mut trace: Vec<String> = vec![];
    let mut hh = 0u64;
    for _ in 0..(if ctx.cfg.tiny { 8 } else { 6 + rng.usize(30) }) {
        bump(ctx, 1);
        c.mav = rng.bool();
        let k = rng.usize(12);
        let v: u8 = match rng.usize(4) {
            0 => 1 << rng.usize(8),
            1 => 0,
            2 => 255,
            _ => rng.next() as u8,
        };
        let (msg, want, fails): (String, Option<String>, bool) = match k {
            0 | 1 => {
                ese = v;
                (format!("*ESE {}", v), None, false)
            }
            2 | 3 => {
                sre = v;
                (format!("*SRE {}", v), None, false)
            }
            4 => ("*ESE?".into(), Some(ese.to_string()), false),
            5 => ("*SRE?".into(), Some(sre.to_string()), false),
            6 => {
                let r = esr;
                esr = 0;
                ("*ESR?".into(), Some(r.to_string()), false)
            }
            7 => {
                esr |= 1;
                ("*OPC".into(), None, false)
            }
            8 => {
                esr = 0;
                ("*CLS".into(), None, false)
            }
            9 => {
                // an undefined header: command error, bit 5 of ESR
                esr |= 0x20;
                ("*FOO".into(), None, true)
            }
            _ => {
                let mut b = 0u8;
                if esr & ese != 0 {
                    b |= 0x20;
                }
                if c.mav {
                    b |= 0x10;
                }
                if b & sre != 0 {
                    b |= 0x40;
                }
                ("*STB?".into(), Some(b.to_string()), false)
            }
        };
        hh = mix(hh, k as u64 * 256 + v as u64);
        let mut resp: Vec<u8> = Vec::new();
        let r = PLAIN_TREE.run(msg.as_bytes(), &mut dev, &mut c, &mut resp);
        trace.push(format!("{}{}", msg, if c.mav { " [mav]" } else { "" }));
        let want_bytes = want.clone().map(|w| format!("{}\n", w).into_bytes()).unwrap_or_default();
        if r.is_err() != fails || (!fails && resp != want_bytes) || (dev.esr, dev.ese, dev.sre) != (esr, ese, sre) {
            ctx.violation(&format!("C16:plain-488.2-device:{}", if msg == "*STB?" { "status-byte-differs" } else { "register-or-response-differs" }), jobj(&[("history", jstr(&trace.join(" | "))), ("expected_response", jstr(&want.unwrap_or_default())), ("observed_response", jbytes(&resp)), ("result", jstr(&format!("{:?}", r.map_err(|e| e.get_code())))), ("expected esr/ese/sre", jstr(&format!("{}/{}/{}", esr, ese, sre))), ("observed esr/ese/sre", jstr(&format!("{}/{}/{}", dev.esr, dev.ese, dev.sre)))]));
            return;
        }
        if msg == "*STB?" {
            ctx.count("plain-488.2.status-bytes-compared");
        }
    }
    ctx.nontrivial(hh);
}

pub fn run(cfg: &Cfg, rep: &mut Report, focus: Focus) {
    if focus == Focus::C16 {
        run_cases(cfg, "plain-488.2-device", cfg.n(8, 200_000, 4_000_000), rep, |rng, ctx| plain_history(rng, ctx));
    }
    let n = cfg.n(30, 750_000, 15_000_000) / if focus == Focus::C05 || focus == Focus::C10 { 4 } else { 1 };
    run_cases(cfg, "histories", n, rep, |rng, ctx| match ctx.index % 3 {
        0 => run_history::<std::collections::VecDeque<Error>>(rng, ctx, focus),
        1 => run_history::<Vec<Error>>(rng, ctx, focus),
        _ => run_history::<arrayvec::ArrayVec<Error, 64>>(rng, ctx, focus),
    });
}
