//! C17 — <numeric_value>: MIN/MAX/DEF/UP/DOWN recognised exactly in short/long form, otherwise the
//! underlying numeric conversion; resolution against bounds never leaves [min,max].
use crate::fw::*;
use crate::gen::names::random_case;
use crate::gen::num::*;
use scpi::error::Error;
use scpi::parser::tokenizer::Token;
use scpi::units::uom::si::f32::{Frequency, Time};
use scpi::units::uom::si::{frequency::hertz, time::second};
use scpi_contrib::scpi1999::{NumericBuilder, NumericValue};

#[derive(Clone, Copy, PartialEq, Debug)]
enum Kw {
    Max,
    Min,
    Def,
    Up,
    Down,
}

const WORDS: &[(&[u8], Option<Kw>)] = &[
    (b"MAX", Some(Kw::Max)), (b"MAXimum", Some(Kw::Max)), (b"MIN", Some(Kw::Min)), (b"MINimum", Some(Kw::Min)), (b"DEF", Some(Kw::Def)), (b"DEFault", Some(Kw::Def)),
    (b"UP", Some(Kw::Up)), (b"DOWN", Some(Kw::Down)),
    // near misses: must fall through to the underlying type
    (b"MAXI", None), (b"MAXIMU", None), (b"MAXIMUMS", None), (b"MA", None), (b"MINI", None), (b"MI", None), (b"DEFA", None), (b"DEFAUL", None), (b"DE", None), (b"DEFAULTS", None),
    (b"NINFinity", None), (b"INFinity", None), (b"ninfinity", None), (b"INFINITY", None), (b"NINFINIT", None), (b"U", None), (b"UPP", None), (b"DOW", None), (b"DOWNN", None), (b"D", None), (b"MAX1", None), (b"UP1", None), (b"INF", None), (b"NAN", None), (b"NINF", None), (b"POTATO", None), (b"ON", None),
];

fn tokens(rng: &mut Rng, lit: &mut String) -> usize {
    // returns kind index; literal text is stored in `lit`
    let k = rng.usize(8);
    *lit = match k {
        0 | 1 => {
            let a = rng.range(-300, 300) as i128;
            let p = around(rng, a);
            respell(rng, &p)
        }
        2 => {
            let p = random_plain(rng);
            respell(rng, &p)
        }
        3 => with_exponent(rng),
        _ => String::new(),
    };
    k
}

/// program text of one data element (None where the text would not lex back to the same token)
fn render_token(t: &Token) -> Option<Vec<u8>> {
    Some(match t {
        Token::DecimalNumericProgramData(s) => s.to_vec(),
        Token::CharacterProgramData(s) => s.to_vec(),
        Token::StringProgramData(s) => [&b"'"[..], s, b"'"].concat(),
        Token::ArbitraryBlockData(s) => [format!("#1{}", s.len()).as_bytes(), s].concat(),
        Token::ExpressionProgramData(s) => [&b"("[..], s, b")"].concat(),
        Token::NonDecimalNumericProgramData(v) => format!("#H{:X}", v).into_bytes(),
        Token::DecimalNumericSuffixProgramData(n, x) => [n, &b" "[..], x].concat(),
        _ => return None,
    })
}

macro_rules! numtype {
    ($ctx:expr, $rng:expr, $t:ty, $name:literal, $cmp:expr, $mk:expr, $tmin:expr, $tmax:expr) => {{
        let ctx: &mut Ctx = $ctx;
        let rng: &mut Rng = $rng;
        bump(ctx, 1);
        // bounds: min <= max incl. min == max; default inside or absent
        let mut raw: [f64; 3] = [rng.range(-1000, 1000) as f64 / 4.0, rng.range(-1000, 1000) as f64 / 4.0, rng.range(-1000, 1000) as f64 / 4.0];
        // a range open on one or both sides: bounds at / beyond the data type's own limits (infinite for floats)
        if rng.chance(1, 10) {
            raw[0] = f64::NEG_INFINITY;
        }
        if rng.chance(1, 10) {
            raw[1] = f64::INFINITY;
        }
        if rng.chance(1, 40) {
            raw[2] = if rng.bool() { f64::INFINITY } else { f64::NEG_INFINITY };
        }
        let mk: fn(f64) -> $t = $mk;
        let (mut lo, mut hi) = (mk(raw[0]), mk(raw[1]));
        if lo > hi {
            std::mem::swap(&mut lo, &mut hi);
        }
        if rng.chance(1, 8) {
            hi = lo;
        }
        let mut def = mk(raw[2]);
        // now and then the configured default is left outside the bounds: DEFault "yields the configured default" and a
        // resolved value "always lies within [min, max]" cannot both hold then, so either the default or -222 is accepted
        let def_outside_ok = rng.chance(1, 10);
        if !def_outside_ok {
            if def < lo {
                def = lo;
            }
            if def > hi {
                def = hi;
            }
        }
        let def_is_outside = def < lo || def > hi;
        let with_default = rng.bool();
        // one limit that compares with nothing (NaN, float-backed types only): no value lies within such bounds
        let probe = mk(f64::NAN);
        #[allow(clippy::eq_op)]
        let is_float = probe != probe;
        let nan_limit = is_float && rng.chance(1, 25);
        if nan_limit {
            if rng.bool() { hi = mk(f64::NAN) } else { lo = mk(f64::NAN) }
        }
        // the data element
        let mut lit = String::new();
        let k = tokens(rng, &mut lit);
        let word: Vec<u8>;
        let mut expect_kw: Option<Kw> = None;
        let on_bound: String;
        let tok: Token = match k {
            0..=3 => Token::DecimalNumericProgramData(lit.as_bytes()),
            4 | 5 => {
                let (w, kw) = *rng.pick(WORDS);
                word = random_case(rng, w);
                expect_kw = kw;
                Token::CharacterProgramData(&word)
            }
            6 => {
                // literal exactly on / next to a bound
                let b = if rng.bool() { raw[0].min(raw[1]) } else { raw[0].max(raw[1]) };
                let d = *rng.pick(&[0.0, 0.25, -0.25, 1.0, -1.0, 0.001, -0.001]);
                if b.is_finite() {
                    on_bound = format!("{}", b + d);
                    Token::DecimalNumericProgramData(on_bound.as_bytes())
                } else {
                    // an infinite bound is reached by the keyword of the underlying type (not a numeric_value keyword)
                    Token::CharacterProgramData(if b > 0.0 { b"INF" } else { b"NINF" })
                }
            }
            // keyword words carried by another element type are not keywords
            7 if rng.chance(1, 2) => *rng.pick(&[Token::StringProgramData(b"MAX"), Token::StringProgramData(b"minimum"), Token::StringProgramData(b"DEFault"), Token::StringProgramData(b"UP"), Token::StringProgramData(b"down"), Token::ArbitraryBlockData(b"MAX"), Token::ArbitraryBlockData(b"DEF"), Token::ExpressionProgramData(b"MIN"), Token::ExpressionProgramData(b"UP"), Token::DecimalNumericSuffixProgramData(b"1", b"MAX")]),
            _ => *rng.pick(&[Token::StringProgramData(b"1"), Token::ArbitraryBlockData(b"1"), Token::ExpressionProgramData(b"1"), Token::NonDecimalNumericProgramData(5), Token::DecimalNumericSuffixProgramData(b"1", b"S"), Token::DecimalNumericSuffixProgramData(b"2", b"KHZ")]),
        };
        let direct: Result<$t, Error> = <$t>::try_from(tok);
        let nv: Result<NumericValue<$t>, Error> = NumericValue::<$t>::try_from(tok);
        ctx.count(&format!("type.{}", $name));
        ctx.nontrivial(mix(hash_str(&format!("{:?}", tok)), hash_str($name)));
        // 0. the way a handler obtains it: the same element, lexed from text, through Parameters::next_data and
        // Parameters::next_optional_data (required and optional <numeric_value> parameters) gives what the conversion gives
        if let Some(text) = render_token(&tok) {
            use scpi::parser::tokenizer::Tokenizer;
            let want = format!("{:?}", nv.as_ref().map_err(|e| e.get_code()));
            let mut t1 = Tokenizer::new_params(&text).peekable();
            let mut p1 = scpi::parser::parameters::Parameters::with(&mut t1);
            let r1: Result<NumericValue<$t>, Error> = p1.next_data();
            let mut t2 = Tokenizer::new_params(&text).peekable();
            let mut p2 = scpi::parser::parameters::Parameters::with(&mut t2);
            let r2: Result<Option<NumericValue<$t>>, Error> = p2.next_optional_data();
            ctx.count("accessor.next_data/next_optional_data-compared-with-conversion");
            let g1 = format!("{:?}", r1.as_ref().map_err(|e| e.get_code()));
            let g2 = match &r2 {
                Ok(Some(v)) => format!("Ok({:?})", v),
                Ok(None) => "absent".to_string(),
                Err(e) => format!("Err({:?})", e.get_code()),
            };
            if g1 != want {
                ctx.violation("C17:accessor:next_data-differs-from-conversion", jobj(&[("type", jstr($name)), ("data", jbytes(&text)), ("conversion", jstr(&want)), ("next_data", jstr(&g1))]));
            }
            if g2 != want {
                ctx.violation("C17:accessor:next_optional_data-differs-from-conversion", jobj(&[("type", jstr($name)), ("data", jbytes(&text)), ("conversion", jstr(&want)), ("next_optional_data", jstr(&g2))]));
            }
        }
        let detail = |extra: &str| jobj(&[("type", jstr($name)), ("token", jstr(&format!("{:?}", tok))), ("min", jstr(&format!("{:?}", lo))), ("max", jstr(&format!("{:?}", hi))), ("default", jstr(&format!("{:?}", if with_default { Some(def) } else { None }))), ("observed", jstr(extra))]);
        // 1. recognition
        let recognised = match (&nv, expect_kw) {
            (Ok(NumericValue::Maximum), Some(Kw::Max)) | (Ok(NumericValue::Minimum), Some(Kw::Min)) | (Ok(NumericValue::Default), Some(Kw::Def)) | (Ok(NumericValue::Up), Some(Kw::Up)) | (Ok(NumericValue::Down), Some(Kw::Down)) => true,
            (_, Some(_)) => false,
            (Ok(NumericValue::Value(v)), None) => matches!(&direct, Ok(d) if $cmp(d, v)),
            (Err(e), None) => matches!(&direct, Err(d) if d == e),
            (Ok(_), None) => false,
        };
        if !recognised {
            let sig = match expect_kw {
                Some(k) => format!("C17:keyword-not-recognised:{:?}", k),
                None => {
                    if matches!(tok, Token::CharacterProgramData(_)) { "C17:near-miss-or-other-word-not-passed-to-underlying-type".to_string() } else { "C17:non-keyword-element-converts-differently-from-underlying-type".to_string() }
                }
            };
            ctx.violation(&sig, detail(&format!("numeric_value={:?} underlying={:?}", nv.as_ref().map_err(|e| e.get_code()), direct.as_ref().map_err(|e| e.get_code()))));
            return;
        }
        ctx.count(match expect_kw { Some(_) => "elements.keyword", None if nv.is_ok() => "elements.value", None => "elements.rejected-by-underlying-type" });
        // inverted limits (min above max): the interval is empty, no value lies within it however the limits are handed over
        if !nan_limit && rng.chance(1, 40) && lo < hi {
            if let Ok(NumericValue::Value(x)) = nv {
                ctx.count("resolve.value-against-inverted-limits");
                for (how, r) in [("build", NumericValue::Value(x).build().max(lo).min(hi).finish()), ("finish_with", NumericValue::Value(x).finish_with(lo, hi)), ("new", NumericBuilder::new(NumericValue::Value(x), lo, hi).finish())] {
                    if !matches!(&r, Err(e) if e.get_code() == -222) {
                        ctx.violation("C17:value-accepted-although-min-is-above-max", detail(&format!("{} with max={:?} min={:?} -> {:?}", how, lo, hi, r.as_ref().map_err(|e| e.get_code()))));
                    }
                }
            }
        }
        // 2. resolution
        if nan_limit {
            if let Ok(NumericValue::Value(x)) = nv {
                #[allow(clippy::eq_op)]
                if x == x {
                    ctx.count("resolve.value-against-a-NaN-limit");
                    for (how, r) in [("build", nv.clone().unwrap().build().max(hi).min(lo).finish()), ("finish_with", nv.clone().unwrap().finish_with(hi, lo)), ("new", NumericBuilder::new(nv.clone().unwrap(), hi, lo).finish())] {
                        if !matches!(&r, Err(e) if e.get_code() == -222) {
                            ctx.violation("C17:value-accepted-although-a-limit-is-NaN", detail(&format!("{} -> {:?}", how, r.as_ref().map_err(|e| e.get_code()))));
                        }
                    }
                }
            }
            return;
        }
        if let Ok(v) = nv {
            let mut b = v.build().max(hi).min(lo);
            if with_default {
                b = b.default(def);
            }
            let r = b.finish();
            let r2 = v.finish_with(hi, lo);
            let want: Result<$t, i16> = match v {
                NumericValue::Maximum => Ok(hi),
                NumericValue::Minimum => Ok(lo),
                NumericValue::Default => if with_default { Ok(def) } else { Err(-224) },
                NumericValue::Up | NumericValue::Down => Err(-224),
                NumericValue::Value(x) => if x >= lo && x <= hi { Ok(x) } else { Err(-222) },
            };
            let is_def = matches!(v, NumericValue::Default);
            let same = |a: &Result<$t, Error>, w: &Result<$t, i16>| match (a, w) {
                (Ok(x), Ok(y)) => $cmp(x, y),
                (Err(e), Err(c)) => e.get_code() == *c,
                // a configured default outside the bounds may also be refused as out of range
                (Err(e), Ok(_)) if is_def && with_default && def_is_outside => e.get_code() == -222,
                _ => false,
            };
            let kind = match v { NumericValue::Maximum => "MAX", NumericValue::Minimum => "MIN", NumericValue::Default => "DEF", NumericValue::Up => "UP", NumericValue::Down => "DOWN", NumericValue::Value(x) => if x == lo || x == hi { "value-on-bound" } else if x > lo && x < hi { "value-inside" } else { "value-outside" } };
            ctx.count(&format!("resolve.{}", kind));
            if !same(&r, &want) {
                ctx.violation(&format!("C17:resolution-differs:{}", kind), detail(&format!("finish={:?} expected={:?}", r.as_ref().map_err(|e| e.get_code()), want)));
            }
            // finish_with has no default configured
            let want2: Result<$t, i16> = match v { NumericValue::Default => Err(-224), _ => want };
            if !same(&r2, &want2) {
                ctx.violation(&format!("C17:finish_with-differs:{}", kind), detail(&format!("finish_with={:?} expected={:?}", r2.as_ref().map_err(|e| e.get_code()), want2)));
            }
            // bounds left at the data type's limits (`build()` without `.max()` and/or `.min()`), and the other
            // setter order (`NumericBuilder` itself cannot be named outside the crate)
            let (tmin, tmax): ($t, $t) = ($tmin, $tmax);
            let want_for = |lo: $t, hi: $t| -> Result<$t, i16> {
                match v {
                    NumericValue::Maximum => Ok(hi),
                    NumericValue::Minimum => Ok(lo),
                    NumericValue::Default | NumericValue::Up | NumericValue::Down => Err(-224),
                    NumericValue::Value(x) => if x >= lo && x <= hi { Ok(x) } else { Err(-222) },
                }
            };
            // the default configured before, between or after the bounds
            if with_default {
                let orders: [(&str, Result<$t, Error>); 3] = [
                    ("default-first", v.build().default(def).max(hi).min(lo).finish()),
                    ("default-between", v.build().max(hi).default(def).min(lo).finish()),
                    ("default-first-min-max", v.build().default(def).min(lo).max(hi).finish()),
                ];
                for (oname, got) in orders.iter() {
                    ctx.count("resolve.builder.default-order");
                    if !same(got, &want) {
                        ctx.violation(&format!("C17:resolution-differs:builder-{}:{}", oname, kind), detail(&format!("finish={:?} expected={:?}", got.as_ref().map_err(|e| e.get_code()), want)));
                    }
                }
            }
            let variants: [(&str, Result<$t, Error>, $t, $t); 4] = [
                ("build-only", v.build().finish(), tmin, tmax),
                ("max-only", v.build().max(hi).finish(), tmin, hi),
                ("min-only", v.build().min(lo).finish(), lo, tmax),
                ("min-then-max", v.build().min(lo).max(hi).finish(), lo, hi),
            ];
            for (vname, got, l, h) in variants.iter() {
                if *l > *h {
                    // one configured bound beyond the type limit that stands in for the other: min > max is outside the quantifier
                    ctx.count("resolve.builder.skipped(inverted bounds)");
                    continue;
                }
                let w = want_for(*l, *h);
                ctx.count(&format!("resolve.builder.{}", vname));
                if !same(got, &w) {
                    ctx.violation(&format!("C17:resolution-differs:builder-{}:{}", vname, kind), detail(&format!("finish={:?} expected={:?} (bounds {:?}..{:?})", got.as_ref().map_err(|e| e.get_code()), w, l, h)));
                }
                if let Ok(x) = got {
                    if !(*x >= *l && *x <= *h) {
                        ctx.violation("C17:resolved-value-outside-bounds", detail(&format!("{:?} (builder {})", x, vname)));
                    }
                }
            }
            // the builder's own constructor, and setters called again (a setter sets the bound: the last call counts)
            let (lo2, hi2) = (mk(rng.range(-1000, 1000) as f64 / 4.0), mk(rng.range(-1000, 1000) as f64 / 4.0));
            let again: [(&str, Result<$t, Error>); 4] = [
                ("new", NumericBuilder::new(v, hi, lo).finish()),
                ("new-then-setters", NumericBuilder::new(v, hi2, lo2).max(hi).min(lo).finish()),
                ("setters-twice", v.build().max(hi2).min(lo2).max(hi).min(lo).finish()),
                ("setters-twice-min-first", v.build().min(lo2).min(lo).max(hi2).max(hi).finish()),
            ];
            let w = want_for(lo, hi);
            for (vname, got) in again.iter() {
                ctx.count(&format!("resolve.builder.{}", vname));
                if !same(got, &w) {
                    ctx.violation(&format!("C17:resolution-differs:builder-{}:{}", vname, kind), detail(&format!("finish={:?} expected={:?} (first bounds {:?}..{:?})", got.as_ref().map_err(|e| e.get_code()), w, lo2, hi2)));
                }
            }
            // the invariant of the statement, checked on its own
            for res in [&r, &r2] {
                if let Ok(x) = res {
                    if !(*x >= lo && *x <= hi) && !(is_def && def_is_outside) {
                        ctx.violation("C17:resolved-value-outside-bounds", detail(&format!("{:?}", x)));
                    }
                }
            }
        }
    }};
}

/// Handler-side arithmetic on a <numeric_value> before it is resolved (a handler scaling mV to V, shifting by an offset):
/// `* k`, `/ k` (k > 0), `+ a`, `- a` and `map` transform a value and leave MIN/MAX/DEF/UP/DOWN what they are, so that
/// MAXimum still resolves to the maximum afterwards.
fn arithmetic(cfg: &Cfg, rep: &mut Report) {
    run_cases(cfg, "arithmetic", cfg.n(8, 400_000, 8_000_000), rep, |rng, ctx| {
        bump(ctx, 1);
        let words: [(&[u8], u8); 10] = [(b"MAX", 1), (b"MAXimum", 1), (b"MIN", 2), (b"minimum", 2), (b"DEF", 3), (b"default", 3), (b"UP", 4), (b"DOWN", 5), (b"12.5", 0), (b"-3", 0)];
        let (w, kind) = *rng.pick(&words);
        let tok = if kind == 0 { Token::DecimalNumericProgramData(w) } else { Token::CharacterProgramData(w) };
        let k: f64 = *rng.pick(&[1.0, 2.0, 0.5, 1000.0, 1e-3, 8.0, 1e6]);
        let a: f64 = *rng.pick(&[0.0, 1.0, -1.0, 100.0, -0.25]);
        let ops: Vec<u8> = (0..1 + rng.usize(3)).map(|_| rng.usize(5) as u8).collect();
        macro_rules! go {
            ($t:ty, $name:literal) => {{
                let mut nv: NumericValue<$t> = match NumericValue::<$t>::try_from(tok) {
                    Ok(v) => v,
                    Err(_) => return,
                };
                let mut want: f64 = if kind == 0 { std::str::from_utf8(w).unwrap().parse().unwrap() } else { 0.0 };
                for op in &ops {
                    match op {
                        0 => {
                            nv = nv * (k as $t);
                            want *= k;
                        }
                        1 => {
                            nv = nv / (k as $t);
                            want /= k;
                        }
                        2 => {
                            nv = nv + (a as $t);
                            want += a;
                        }
                        3 => {
                            nv = nv - (a as $t);
                            want -= a;
                        }
                        _ => nv = nv.map(|t| t),
                    }
                }
                ctx.nontrivial(mix(hash_bytes(w), mix(hash_str($name), ops.iter().fold(k.to_bits() ^ a.to_bits(), |h, o| h.wrapping_mul(7).wrapping_add(*o as u64)))));
                ctx.count(&format!("arithmetic.{}", $name));
                let same_kind = match (&nv, kind) {
                    (NumericValue::Value(v), 0) => ((*v as f64) - want).abs() <= 1e-3 * want.abs().max(1.0),
                    (NumericValue::Maximum, 1) | (NumericValue::Minimum, 2) | (NumericValue::Default, 3) | (NumericValue::Up, 4) | (NumericValue::Down, 5) => true,
                    _ => false,
                };
                if !same_kind {
                    ctx.violation("C17:arithmetic:keyword-or-value-changed-by-handler-side-arithmetic", jobj(&[("type", jstr($name)), ("element", jbytes(w)), ("ops(0*k,1/k,2+a,3-a,4map)", jstr(&format!("{:?}", ops))), ("k", jstr(&format!("{}", k))), ("a", jstr(&format!("{}", a))), ("result", jstr(&format!("{:?}", nv)))]));
                    return;
                }
                // resolution afterwards: MAX -> max, MIN -> min
                let (lo, hi) = (-5000.0 as $t, 7000.0 as $t);
                let r = nv.finish_with(hi, lo);
                let ok = match kind {
                    1 => matches!(r, Ok(v) if v == hi),
                    2 => matches!(r, Ok(v) if v == lo),
                    _ => true,
                };
                if !ok {
                    ctx.violation("C17:arithmetic:MIN-or-MAX-resolves-to-another-bound-after-arithmetic", jobj(&[("type", jstr($name)), ("element", jbytes(w)), ("ops(0*k,1/k,2+a,3-a,4map)", jstr(&format!("{:?}", ops))), ("k", jstr(&format!("{}", k))), ("resolved", jstr(&format!("{:?}", r.map_err(|e| e.get_code()))))]));
                }
            }};
        }
        if ctx.index % 2 == 0 {
            go!(f64, "f64")
        } else {
            go!(f32, "f32")
        }
    });
}

pub fn run(cfg: &Cfg, rep: &mut Report) {
    arithmetic(cfg, rep);
    let n = cfg.n(200, 20_000_000, 1_200_000_000);
    run_cases(cfg, "numeric_value", n, rep, |rng, ctx| {
        match ctx.index % 15 {
            0 => numtype!(ctx, rng, u8, "u8", |a: &u8, b: &u8| a == b, |x: f64| x.abs().min(255.0) as u8, <u8>::MIN, <u8>::MAX),
            1 => numtype!(ctx, rng, i8, "i8", |a: &i8, b: &i8| a == b, |x: f64| x.clamp(-128.0, 127.0) as i8, <i8>::MIN, <i8>::MAX),
            2 => numtype!(ctx, rng, u16, "u16", |a: &u16, b: &u16| a == b, |x: f64| x.abs() as u16, <u16>::MIN, <u16>::MAX),
            3 => numtype!(ctx, rng, i16, "i16", |a: &i16, b: &i16| a == b, |x: f64| x as i16, <i16>::MIN, <i16>::MAX),
            4 => numtype!(ctx, rng, u32, "u32", |a: &u32, b: &u32| a == b, |x: f64| x.abs() as u32, <u32>::MIN, <u32>::MAX),
            5 => numtype!(ctx, rng, i32, "i32", |a: &i32, b: &i32| a == b, |x: f64| x as i32, <i32>::MIN, <i32>::MAX),
            6 => numtype!(ctx, rng, u64, "u64", |a: &u64, b: &u64| a == b, |x: f64| x.abs() as u64, <u64>::MIN, <u64>::MAX),
            7 => numtype!(ctx, rng, i64, "i64", |a: &i64, b: &i64| a == b, |x: f64| x as i64, <i64>::MIN, <i64>::MAX),
            8 => numtype!(ctx, rng, usize, "usize", |a: &usize, b: &usize| a == b, |x: f64| x.abs() as usize, <usize>::MIN, <usize>::MAX),
            9 => numtype!(ctx, rng, isize, "isize", |a: &isize, b: &isize| a == b, |x: f64| x as isize, <isize>::MIN, <isize>::MAX),
            10 => numtype!(ctx, rng, f32, "f32", |a: &f32, b: &f32| a.to_bits() == b.to_bits(), |x: f64| x as f32, <f32>::MIN, <f32>::MAX),
            11 => numtype!(ctx, rng, f64, "f64", |a: &f64, b: &f64| a.to_bits() == b.to_bits(), |x: f64| x, <f64>::MIN, <f64>::MAX),
            14 => {
                use scpi::units::uom::si::electric_potential::volt;
                use scpi::units::uom::si::f64::ElectricPotential as V64;
                numtype!(ctx, rng, V64, "ElectricPotential<f64>", |a: &V64, b: &V64| a.value.to_bits() == b.value.to_bits(), |x: f64| V64::new::<volt>(x), V64::new::<volt>(f64::MIN), V64::new::<volt>(f64::MAX))
            }
            12 => numtype!(ctx, rng, Time, "Time<f32>", |a: &Time, b: &Time| a.value.to_bits() == b.value.to_bits(), |x: f64| Time::new::<second>(x as f32), Time::new::<second>(f32::MIN), Time::new::<second>(f32::MAX)),
            _ => numtype!(ctx, rng, Frequency, "Frequency<f32>", |a: &Frequency, b: &Frequency| a.value.to_bits() == b.value.to_bits(), |x: f64| Frequency::new::<hertz>(x as f32), Frequency::new::<hertz>(f32::MIN), Frequency::new::<hertz>(f32::MAX)),
        }
        if ctx.index % 100_003 == 0 {
            ctx.sample(|| jobj(&[("note", jstr("element kinds: decimal literals in every spelling, keywords MIN/MAX/DEF/UP/DOWN in short/long form and random case, near misses (MAXI, DEFA, UPP...), literals on/next to the bounds, non-numeric elements; bounds incl. min==max, default present/absent"))]));
        }
    });
}
