//! C09 — response data is a valid 488.2/SCPI response element and denotes exactly the value:
//! independent decoder and (where the type is also a parameter type) the library's own parser
//! return the original value.
use crate::fw::*;
use crate::gen::scen::pools;
use crate::props::enums_fixed::*;
use crate::refm::decode::*;
use arrayvec::ArrayVec;
use scpi::error::{Error, ErrorCode};
use scpi::option::ScpiEnum;
use scpi::parser::format::{Arbitrary, Binary, Character, Expression, Hex, Octal};
use scpi::parser::response::ResponseData;
use scpi::parser::tokenizer::{Token, Tokenizer};

fn fmt<T: ResponseData>(v: &T) -> Result<Vec<u8>, Error> {
    let mut out: Vec<u8> = Vec::new();
    v.format_response_data(&mut out)?;
    Ok(out)
}

/// tokens of a parameter list as the library lexes it (up to the first error)
fn lib_tokens(text: &[u8]) -> Result<Vec<Token<'_>>, i16> {
    let mut v = vec![];
    for t in Tokenizer::new_params(text) {
        match t {
            Ok(t) => v.push(t),
            Err(e) => return Err(e.get_code()),
        }
        if v.len() > text.len() + 2 {
            return Err(0);
        }
    }
    Ok(v)
}

macro_rules! int_check {
    ($ctx:expr, $t:ty, $v:expr) => {{
        let v: $t = $v;
        bump($ctx, 1);
        let name = stringify!($t);
        match fmt(&v) {
            Err(e) => $ctx.violation(&format!("C09:int:{}:format-failed", name), jobj(&[("value", v.to_string()), ("error", e.get_code().to_string())])),
            Ok(text) => {
                if decode_nr1(&text) != Some(v as i128) {
                    $ctx.violation(&format!("C09:int:{}:text-does-not-denote-value", name), jobj(&[("value", v.to_string()), ("text", jbytes(&text))]));
                }
                match lib_tokens(&text).as_deref() {
                    Ok([t @ Token::DecimalNumericProgramData(_)]) => match <$t>::try_from(*t) {
                        Ok(back) if back == v => {}
                        other => $ctx.violation(&format!("C09:int:{}:library-roundtrip-differs", name), jobj(&[("value", v.to_string()), ("text", jbytes(&text)), ("back", jstr(&format!("{:?}", other.map_err(|e| e.get_code()))))])),
                    },
                    other => $ctx.violation(&format!("C09:int:{}:library-lexes-text-differently", name), jobj(&[("text", jbytes(&text)), ("tokens", jstr(&format!("{:?}", other)))])),
                }
            }
        }
        if v >= 0 as $t {
            for (radix, letter) in [(16u32, b'H'), (8, b'Q'), (2, b'B')] {
                bump($ctx, 1);
                let r = match radix {
                    16 => fmt(&Hex(v)),
                    8 => fmt(&Octal(v)),
                    _ => fmt(&Binary(v)),
                };
                match r {
                    Err(e) => $ctx.violation(&format!("C09:nondecimal:{}:format-failed", name), jobj(&[("value", v.to_string()), ("error", e.get_code().to_string())])),
                    Ok(text) => {
                        if decode_nondecimal(&text, letter) != Some(v as u128) {
                            $ctx.violation(&format!("C09:nondecimal:{}:radix{}:text-does-not-denote-value", name, radix), jobj(&[("value", v.to_string()), ("text", jbytes(&text))]));
                        }
                        match lib_tokens(&text).as_deref() {
                            Ok([t @ Token::NonDecimalNumericProgramData(_)]) => match <$t>::try_from(*t) {
                                Ok(back) if back == v => {}
                                other => $ctx.violation(&format!("C09:nondecimal:{}:library-roundtrip-differs", name), jobj(&[("value", v.to_string()), ("text", jbytes(&text)), ("back", jstr(&format!("{:?}", other.map_err(|e| e.get_code()))))])),
                            },
                            other => $ctx.violation(&format!("C09:nondecimal:{}:library-lexes-text-differently", name), jobj(&[("text", jbytes(&text)), ("tokens", jstr(&format!("{:?}", other)))])),
                        }
                    }
                }
            }
        }
    }};
}

macro_rules! float_check {
    ($ctx:expr, $t:ty, $bits:expr, $name:literal) => {{
        let v = <$t>::from_bits($bits);
        bump($ctx, 1);
        match fmt(&v) {
            Err(e) => $ctx.violation(concat!("C09:", $name, ":format-failed"), jobj(&[("bits", format!("\"{:#x}\"", $bits)), ("error", e.get_code().to_string())])),
            Ok(text) => {
                let class = if v.is_nan() { "nan" } else if v.is_infinite() { "inf" } else if v == 0.0 { if v.is_sign_negative() { "negative-zero" } else { "zero" } } else if !v.is_normal() { "subnormal" } else { "normal" };
                if v.is_nan() {
                    if text != b"9.91E+37" {
                        $ctx.violation(concat!("C09:", $name, ":nan-sentinel-wrong"), jobj(&[("text", jbytes(&text))]));
                    }
                } else if v.is_infinite() {
                    let want: &[u8] = if v > 0.0 { b"9.9E+37" } else { b"-9.9E+37" };
                    if text != want {
                        $ctx.violation(concat!("C09:", $name, ":infinity-sentinel-wrong"), jobj(&[("text", jbytes(&text))]));
                    }
                } else {
                    if !is_nrf(&text) {
                        $ctx.violation(concat!("C09:", $name, ":text-is-not-a-valid-NRf"), jobj(&[("bits", format!("\"{:#x}\"", $bits)), ("text", jbytes(&text))]));
                    } else {
                        if text.iter().any(|c| *c == b'e') || !text.iter().any(|c| *c == b'E' || *c == b'e') {
                        }
                        // independent decoder: Rust core's correctly rounded parser
                        let back: $t = std::str::from_utf8(&text).unwrap().parse().unwrap();
                        if back.to_bits() != $bits {
                            $ctx.violation(&format!("C09:{}:independent-decode-differs:{}", $name, class), jobj(&[("bits", format!("\"{:#x}\"", $bits)), ("text", jbytes(&text)), ("decoded_bits", format!("\"{:#x}\"", back.to_bits()))]));
                        }
                        match <$t>::try_from(Token::DecimalNumericProgramData(&text)) {
                            Ok(b) if b.to_bits() == $bits => {}
                            other => $ctx.violation(&format!("C09:{}:library-roundtrip-differs:{}", $name, class), jobj(&[("bits", format!("\"{:#x}\"", $bits)), ("text", jbytes(&text)), ("back", jstr(&format!("{:?}", other.map(|b| b.to_bits()).map_err(|e| e.get_code()))))])),
                        }
                        if text.contains(&b'e') {
                            $ctx.count("observation.exponent-mark-lower-case(not-strict-NR3-talker-form)");
                        }
                    }
                }
                $ctx.count(concat!($name, ".checked"));
            }
        }
    }};
}

fn check_bytes_string(ctx: &mut Ctx, s: &[u8]) {
    bump(ctx, 1);
    let r = fmt(&s);
    if !s.is_ascii() {
        if r.is_ok() {
            ctx.violation("C09:string:non-ascii-content-emitted", jobj(&[("value", jbytes(s))]));
        }
        ctx.count("string.non-ascii-refused");
        return;
    }
    match r {
        Err(e) => ctx.violation("C09:string:format-failed", jobj(&[("value", jbytes(s)), ("error", e.get_code().to_string())])),
        Ok(text) => {
            ctx.count("string.checked");
            match decode_string(&text) {
                Some(d) if d == s => {}
                other => ctx.violation("C09:string:independent-decode-differs", jobj(&[("value", jbytes(s)), ("text", jbytes(&text)), ("decoded", jstr(&format!("{:?}", other.map(|d| show(&d)))))])),
            }
            // library parser
            match lib_tokens(&text).as_deref() {
                Ok([t @ Token::StringProgramData(_)]) => match <&[u8]>::try_from(*t) {
                    Ok(back) if back == s => {}
                    Ok(back) => {
                        let sig = if s.contains(&b'"') && back.windows(2).any(|w| w == b"\"\"") { "C09:string-roundtrip:library-parser-returns-doubled-quote" } else { "C09:string:library-roundtrip-differs" };
                        ctx.violation(sig, jobj(&[("value", jbytes(s)), ("text", jbytes(&text)), ("library_returns", jbytes(back))]));
                    }
                    Err(e) => ctx.violation("C09:string:library-roundtrip-fails", jobj(&[("value", jbytes(s)), ("error", e.get_code().to_string())])),
                },
                other => ctx.violation("C09:string:library-lexes-text-differently", jobj(&[("value", jbytes(s)), ("text", jbytes(&text)), ("tokens", jstr(&format!("{:?}", other)))])),
            }
        }
    }
}

fn check_block(ctx: &mut Ctx, p: &[u8]) {
    bump(ctx, 1);
    match fmt(&Arbitrary(p)) {
        Err(e) => ctx.violation("C09:block:format-failed", jobj(&[("len", p.len().to_string()), ("error", e.get_code().to_string())])),
        Ok(text) => {
            ctx.count(&format!("block.len-digits.{}", p.len().to_string().len()));
            match decode_block(&text) {
                Some(d) if d == p => {}
                _ => ctx.violation(&format!("C09:block:independent-decode-differs:len-digits-{}", p.len().to_string().len()), jobj(&[("len", p.len().to_string()), ("text_head", jbytes(&text[..text.len().min(24)]))])),
            }
            match lib_tokens(&text).as_deref() {
                Ok([t @ Token::ArbitraryBlockData(_)]) => match Arbitrary::try_from(*t) {
                    Ok(back) if back.0 == p => {}
                    _ => ctx.violation("C09:block:library-roundtrip-differs", jobj(&[("len", p.len().to_string())])),
                },
                other => ctx.violation("C09:block:library-lexes-text-differently", jobj(&[("len", p.len().to_string()), ("text_head", jbytes(&text[..text.len().min(24)])), ("tokens", jstr(&format!("{:?}", other.map(|v| v.len()))))])),
            }
        }
    }
}

fn check_error_item(ctx: &mut Ctx, e: Error) {
    bump(ctx, 1);
    let want_msg: Vec<u8> = match e.get_extended() {
        Some(x) => {
            let mut m = e.get_message().to_vec();
            m.push(b';');
            m.extend_from_slice(x);
            m
        }
        None => e.get_message().to_vec(),
    };
    if !want_msg.is_ascii() {
        return;
    }
    let kind = if e.get_extended().is_some() { "extended" } else { "plain" };
    match fmt(&e) {
        Err(x) => ctx.violation(&format!("C09:error-item:{}:format-failed", kind), jobj(&[("code", e.get_code().to_string()), ("error", x.get_code().to_string())])),
        Ok(text) => {
            ctx.count(&format!("error-item.{}", kind));
            let ok = (|| {
                let comma = text.iter().position(|c| *c == b',')?;
                if decode_nr1(&text[..comma])? != e.get_code() as i128 {
                    return None;
                }
                let s = decode_string(&text[comma + 1..])?;
                if s == want_msg {
                    Some(())
                } else {
                    None
                }
            })();
            if ok.is_none() {
                let q = want_msg.contains(&b'"');
                ctx.violation(&format!("C09:error-item:{}:not-code-comma-quoted-message{}", kind, if q { ":message-contains-quote" } else { "" }), jobj(&[("code", e.get_code().to_string()), ("message", jbytes(&want_msg)), ("text", jbytes(&text))]));
            }
        }
    }
}

pub fn run(cfg: &Cfg, rep: &mut Report) {
    // ---- integers: exhaustive 8/16-bit
    let before = rep.counters.get("stage.int-exhaustive.truncated").copied();
    run_cases(cfg, "int-exhaustive", 256, rep, |_rng, ctx| {
        let hi = ctx.index as u32;
        let step = if ctx.cfg.tiny { 64 } else { 1 };
        let mut lo = 0u32;
        while lo < 256 {
            let w = (hi << 8 | lo) as u16;
            int_check!(ctx, u16, w);
            int_check!(ctx, i16, w as i16);
            ctx.nontrivial(w as u64);
            lo += step;
        }
        int_check!(ctx, u8, hi as u8);
        int_check!(ctx, i8, hi as u8 as i8);
    });
    let complete = !cfg.tiny && cfg.only.is_none() && cfg.shard.1 == 1 && rep.counters.get("stage.int-exhaustive.truncated").copied() == before;
    rep.exhaustive.insert("all u8,i8,u16,i16 values (decimal; #H/#Q/#B for the non-negative ones)".into(), complete);
    // ---- integers: boundary + random 32/64/size
    run_cases(cfg, "int-wide", cfg.n(20, 800_000, 16_000_000), rep, |rng, ctx| {
        let x = match rng.usize(6) {
            0 => rng.next(),
            1 => rng.next() >> rng.usize(64),
            2 => *rng.pick(&[0, 1, u64::MAX, u64::MAX - 1, i64::MAX as u64, i64::MAX as u64 + 1, u32::MAX as u64, u32::MAX as u64 + 1, i32::MAX as u64, i32::MAX as u64 + 1, 1 << 53, 9, 10, 99, 100]),
            3 => 10u64.pow(rng.usize(20) as u32).wrapping_sub(rng.usize(2) as u64),
            4 => (1u64 << rng.usize(64)).wrapping_sub(rng.usize(2) as u64),
            _ => (rng.next() as i64 >> rng.usize(64)) as u64,
        };
        ctx.nontrivial(x);
        int_check!(ctx, u64, x);
        int_check!(ctx, i64, x as i64);
        int_check!(ctx, usize, x as usize);
        int_check!(ctx, isize, x as isize);
        int_check!(ctx, u32, x as u32);
        int_check!(ctx, i32, x as i32);
    });
    // ---- f32: all bit patterns (thorough) or a strided sample + boundaries (quick)
    let chunks: u64 = 4096;
    // all 2^32 patterns only in the release build of the thorough tier; the debug build samples every 61st
    let stride: u64 = if cfg.tiny { 1 << 26 } else if cfg.quick() { 1021 } else if cfg.profile == "release" { 1 } else { 61 };
    let before = rep.counters.get("stage.f32.truncated").copied();
    run_cases(cfg, "f32", chunks, rep, |_rng, ctx| {
        if ctx.cfg.tiny && (ctx.index / 16) % 16 != 0 {
            return;
        }
        let per = (1u64 << 32) / chunks;
        let lo = ctx.index * per;
        let mut b = lo + (ctx.index * 7919) % stride.min(per);
        while b < lo + per {
            float_check!(ctx, f32, b as u32, "f32");
            if stride > 1 {
                ctx.nontrivial(b);
            }
            b += stride;
        }
        if stride > 1 {
            // boundaries of this chunk and the special neighbourhoods
            for d in 0..4u64 {
                float_check!(ctx, f32, (lo + d) as u32, "f32");
                float_check!(ctx, f32, (lo + per - 1 - d) as u32, "f32");
            }
        }
    });
    if stride == 1 {
        let complete = cfg.only.is_none() && cfg.shard.1 == 1 && rep.counters.get("stage.f32.truncated").copied() == before;
        rep.exhaustive.insert("all 2^32 f32 bit patterns".into(), complete);
        rep.add("f32.bit-patterns-enumerated", 1u64 << 32);
    }
    run_cases(cfg, "f32-special", 1, rep, |_rng, ctx| {
        for b in [0u32, 0x8000_0000, 1, 0x8000_0001, 0x007f_ffff, 0x0080_0000, 0x7f7f_ffff, 0xff7f_ffff, 0x7f80_0000, 0xff80_0000, 0x7fc0_0000, 0xffc0_0000, 0x7f80_0001, 0x3f80_0000, 0x4b80_0000, 0x4b7f_ffff] {
            float_check!(ctx, f32, b, "f32");
            ctx.nontrivial(b as u64 | 1 << 40);
        }
        for b in [0u64, 0x8000_0000_0000_0000, 1, 0x8000_0000_0000_0001, 0x000f_ffff_ffff_ffff, 0x0010_0000_0000_0000, 0x7fef_ffff_ffff_ffff, 0xffef_ffff_ffff_ffff, 0x7ff0_0000_0000_0000, 0xfff0_0000_0000_0000, 0x7ff8_0000_0000_0000, 0x3ff0_0000_0000_0000, 0x4340_0000_0000_0000, 0x433f_ffff_ffff_ffff] {
            float_check!(ctx, f64, b, "f64");
            ctx.nontrivial(b);
        }
    });
    // ---- physical quantities (uom): written as the plain number of the stored base-unit value; a bare number
    // sent back to the same quantity type is read in its base unit (temperature excepted: bare numbers are
    // read as degrees Celsius while the stored unit is kelvin - C18's judgement call, counted, not judged)
    run_cases(cfg, "quantity", cfg.n(20, 200_000, 8_000_000), rep, |rng, ctx| {
        use scpi::units::uom::si::{f32 as q32, f64 as q64};
        let x64: f64 = match rng.usize(4) {
            0 => rng.range(-100_000, 100_000) as f64 / 8.0,
            1 => 10f64.powi(rng.range(-12, 12) as i32) * rng.range(1, 9999) as f64,
            2 => 0.0,
            _ => f64::from_bits(rng.next()),
        };
        let x32 = x64 as f32;
        macro_rules! q {
            ($m:ident, $t:ident, $unit:ident, $base:path, $x:expr, $ft:ty, $name:literal, $roundtrip:expr) => {{
                bump(ctx, 1);
                let v = $m::$t::new::<$base>($x);
                let stored: $ft = v.value;
                match (fmt(&v), fmt(&stored)) {
                    (Ok(a), Ok(b)) => {
                        if a != b {
                            ctx.violation(concat!("C09:quantity:", $name, ":text-differs-from-its-stored-value"), jobj(&[("value", jstr(&format!("{:?}", stored))), ("text", jbytes(&a)), ("text_of_stored_value", jbytes(&b))]));
                        } else if stored.is_finite() && $roundtrip {
                            match $m::$t::try_from(Token::DecimalNumericProgramData(&a)) {
                                Ok(back) if back.value.to_bits() == stored.to_bits() => {}
                                other => ctx.violation(concat!("C09:quantity:", $name, ":library-roundtrip-differs"), jobj(&[("value", jstr(&format!("{:?}", stored))), ("text", jbytes(&a)), ("back", jstr(&format!("{:?}", other.map(|b| b.value).map_err(|e| e.get_code()))))])),
                            }
                        } else if !$roundtrip {
                            ctx.count("observation.quantity.temperature-bare-number-is-read-as-celsius(not judged)");
                        }
                        ctx.count(concat!("quantity.", $name, ".checked"));
                    }
                    (a, b) => {
                        if a.is_ok() != b.is_ok() {
                            ctx.violation(concat!("C09:quantity:", $name, ":format-result-differs-from-its-stored-value"), jobj(&[("value", jstr(&format!("{:?}", stored)))]));
                        }
                    }
                }
            }};
        }
        use scpi::units::uom::si;
        ctx.nontrivial(x64.to_bits());
        match ctx.index % 8 {
            0 => q!(q32, ElectricPotential, volt, si::electric_potential::volt, x32, f32, "ElectricPotential<f32>", true),
            1 => q!(q64, ElectricPotential, volt, si::electric_potential::volt, x64, f64, "ElectricPotential<f64>", true),
            2 => q!(q32, Frequency, hertz, si::frequency::hertz, x32, f32, "Frequency<f32>", true),
            3 => q!(q64, Time, second, si::time::second, x64, f64, "Time<f64>", true),
            4 => q!(q32, Ratio, ratio, si::ratio::ratio, x32, f32, "Ratio<f32>", true),
            5 => q!(q64, Angle, radian, si::angle::radian, x64, f64, "Angle<f64>", true),
            6 => q!(q32, ElectricCurrent, ampere, si::electric_current::ampere, x32, f32, "ElectricCurrent<f32>", true),
            _ => q!(q64, ThermodynamicTemperature, kelvin, si::thermodynamic_temperature::kelvin, x64, f64, "ThermodynamicTemperature<f64>", false),
        }
    });
    // ---- f64: boundary-directed + random bit patterns
    run_cases(cfg, "f64", cfg.n(30, 3_000_000, 100_000_000), rep, |rng, ctx| {
        let b: u64 = match rng.usize(8) {
            0 => rng.next() & 0x000f_ffff_ffff_ffff | (rng.next() & (1 << 63)),                  // subnormals
            1 => ((rng.usize(2047) as u64) << 52) | (rng.next() & (1 << 63)),                        // powers of two
            2 => (10f64.powi(rng.range(-320, 308) as i32)).to_bits(),                                // powers of ten
            3 => ((1u64 << 53) as f64 + rng.range(-4, 4) as f64).to_bits(),                          // around 2^53
            4 => (rng.range(-100000, 100000) as f64 / 8.0).to_bits(),
            5 => {
                let s = format!("{}.{}e{}", 1 + rng.usize(9), rng.next() % 10_000_000_000_000_000, rng.range(-300, 300));
                s.parse::<f64>().unwrap().to_bits()
            }
            _ => rng.next(),
        };
        ctx.nontrivial(b);
        float_check!(ctx, f64, b, "f64");
    });
    // ---- bool
    run_cases(cfg, "bool", 1, rep, |_rng, ctx| {
        for v in [false, true] {
            bump(ctx, 1);
            let text = fmt(&v).unwrap_or_default();
            ctx.nontrivial(v as u64 + 77);
            if text != if v { b"1" } else { b"0" } {
                ctx.violation("C09:bool:not-0-or-1", jobj(&[("value", v.to_string()), ("text", jbytes(&text))]));
            }
            match bool::try_from(Token::DecimalNumericProgramData(&text)) {
                Ok(b) if b == v => {}
                other => ctx.violation("C09:bool:library-roundtrip-differs", jobj(&[("value", v.to_string()), ("back", jstr(&format!("{:?}", other.map_err(|e| e.get_code()))))])),
            }
        }
    });
    // ---- strings, blocks, character, expression, &str, lists
    run_cases(cfg, "text", cfg.n(40, 900_000, 18_000_000), rep, |rng, ctx| {
        // string content: any ASCII incl. quotes, separators, control characters; sometimes non-ASCII
        let mx = if rng.chance(1, 20) { 300 } else { 24 };
        let n = if rng.chance(1, 60) && !ctx.cfg.tiny { *rng.pick(&[255usize, 256, 257, 1000, 65_535, 65_536, 65_537, 70_000]) } else { rng.usize(mx + 1) };
        let mut s: Vec<u8> = (0..n).map(|_| match rng.usize(5) { 0 => *rng.pick(b"\"\"';,\n\r#() "), 1 => rng.usize(128) as u8, _ => b' ' + rng.usize(95) as u8 }).collect();
        if rng.chance(1, 15) && !s.is_empty() {
            let i = rng.usize(s.len());
            s[i] = 0x80 + rng.usize(128) as u8;
        }
        ctx.nontrivial(hash_bytes(&s));
        check_bytes_string(ctx, &s);
        // blocks: any bytes, lengths around every header-width change
        let len = match rng.usize(12) {
            0 => 0,
            1 => 9,
            2 => 10,
            3 => 99,
            4 => 100,
            5 => 999,
            6 => 1000,
            7 if !ctx.cfg.tiny => 9_999 + rng.usize(3),
            8 if !ctx.cfg.quick() && !ctx.cfg.tiny => *rng.pick(&[99_999usize, 100_000, 999_999, 1_000_000]),
            _ => rng.usize(64),
        };
        let blk: Vec<u8> = (0..len).map(|_| rng.next() as u8).collect();
        check_block(ctx, &blk);
        // &str -> block of its UTF-8 bytes, library returns the same str
        let st = *rng.pick(&pools().utf8);
        bump(ctx, 1);
        match fmt(&st) {
            Ok(text) => {
                if decode_block(&text) != Some(st.as_bytes()) {
                    ctx.violation("C09:str:independent-decode-differs", jobj(&[("value", jstr(st)), ("text", jbytes(&text))]));
                }
                match lib_tokens(&text).as_deref() {
                    Ok([t]) => match <&str>::try_from(*t) {
                        Ok(b) if b == st => {}
                        _ => ctx.violation("C09:str:library-roundtrip-differs", jobj(&[("value", jstr(st))])),
                    },
                    _ => ctx.violation("C09:str:library-lexes-text-differently", jobj(&[("value", jstr(st))])),
                }
            }
            Err(e) => ctx.violation("C09:str:format-failed", jobj(&[("value", jstr(st)), ("error", e.get_code().to_string())])),
        }
        // character data
        let ch = crate::gen::msg::gen_chardata(rng);
        bump(ctx, 1);
        match fmt(&Character(&ch)) {
            Ok(text) if text == ch && is_chardata(&text) => match lib_tokens(&text).as_deref() {
                Ok([t @ Token::CharacterProgramData(_)]) if Character::try_from(*t).map(|c| c.0 == &ch[..]).unwrap_or(false) => ctx.count("character.checked"),
                other => ctx.violation("C09:character:library-roundtrip-differs", jobj(&[("value", jbytes(&ch)), ("tokens", jstr(&format!("{:?}", other)))])),
            },
            other => ctx.violation("C09:character:text-differs", jobj(&[("value", jbytes(&ch)), ("text", jstr(&format!("{:?}", other.map(|t| show(&t)).map_err(|e| e.get_code()))))])),
        }
        // expression data
        let ex = crate::gen::msg::gen_expr_body(rng);
        bump(ctx, 1);
        match fmt(&Expression(&ex)) {
            Ok(text) if text.len() == ex.len() + 2 && text[0] == b'(' && text[text.len() - 1] == b')' && text[1..text.len() - 1] == ex[..] => match lib_tokens(&text).as_deref() {
                Ok([t @ Token::ExpressionProgramData(_)]) => match Expression::try_from(*t) {
                    Ok(b) if b.0 == &ex[..] => ctx.count("expression.checked"),
                    other => ctx.violation("C09:expression:library-parameter-conversion-fails", jobj(&[("value", jbytes(&ex)), ("back", jstr(&format!("{:?}", other.map(|b| show(b.0)).map_err(|e| e.get_code()))))])),
                },
                other => ctx.violation("C09:expression:library-lexes-text-differently", jobj(&[("value", jbytes(&ex)), ("tokens", jstr(&format!("{:?}", other)))])),
            },
            other => ctx.violation("C09:expression:text-differs", jobj(&[("value", jbytes(&ex)), ("text", jstr(&format!("{:?}", other.map(|t| show(&t)).map_err(|e| e.get_code()))))])),
        }
        // lists
        let mx = if rng.chance(1, 100) && !ctx.cfg.tiny { 400 } else if rng.chance(1, 10) { 51 } else { 6 };
        let ln = rng.usize(mx);
        let list: Vec<i32> = (0..ln).map(|_| (rng.next() as i32) >> rng.usize(32)).collect();
        bump(ctx, 2);
        let want: Vec<u8> = list.iter().map(|v| v.to_string()).collect::<Vec<_>>().join(",").into_bytes();
        let mut av: ArrayVec<i32, 400> = ArrayVec::new();
        for v in &list {
            av.push(*v);
        }
        for (nm, r) in [("Vec", fmt(&list)), ("ArrayVec", fmt(&av))] {
            match (r, ln) {
                (Err(_), 0) => ctx.count("list.empty-refused"),
                (Ok(t), 0) => ctx.violation(&format!("C09:list:{}:empty-list-emitted", nm), jobj(&[("text", jbytes(&t))])),
                (Ok(t), _) if t == want => {
                    // decode: every element through the library parser
                    match lib_tokens(&t) {
                        Ok(toks) => {
                            let vals: Vec<i32> = toks.iter().filter(|t| t.is_data()).filter_map(|t| i32::try_from(*t).ok()).collect();
                            let seps = toks.iter().filter(|t| matches!(t, Token::ProgramDataSeparator)).count();
                            if vals != list || seps + 1 != list.len() {
                                ctx.violation(&format!("C09:list:{}:library-roundtrip-differs", nm), jobj(&[("text", jbytes(&t))]));
                            }
                        }
                        Err(c) => ctx.violation(&format!("C09:list:{}:library-cannot-lex", nm), jobj(&[("text", jbytes(&t)), ("error", c.to_string())])),
                    }
                    ctx.count("list.checked");
                }
                (other, _) => ctx.violation(&format!("C09:list:{}:text-differs", nm), jobj(&[("want", jbytes(&want)), ("got", jstr(&format!("{:?}", other.map(|t| show(&t)).map_err(|e| e.get_code()))))])),
            }
        }
    });
    // ---- the `AUTO <Boolean>|ONCE` type of scpi-contrib: ONCE is character data, the booleans are 1/0, each reads back as itself
    run_cases(cfg, "auto", 1, rep, |_rng, ctx| {
        use scpi_contrib::scpi1999::util::Auto;
        for (v, want) in [(Auto::Once, &b"ONCE"[..]), (Auto::Bool(true), b"1"), (Auto::Bool(false), b"0")] {
            bump(ctx, 1);
            ctx.nontrivial(hash_bytes(want));
            match fmt(&v) {
                Ok(t) if t == want => {
                    let back = lib_tokens(&t).ok().and_then(|toks| toks.first().copied()).and_then(|tok| Auto::try_from(tok).ok());
                    let same = match (&back, &v) {
                        (Some(Auto::Once), Auto::Once) => true,
                        (Some(Auto::Bool(a)), Auto::Bool(b)) => a == b,
                        _ => false,
                    };
                    if !same {
                        ctx.violation("C09:auto:text-does-not-read-back-as-the-same-value", jobj(&[("text", jbytes(&t))]));
                    }
                    ctx.count("auto.checked");
                }
                other => ctx.violation("C09:auto:text-differs", jobj(&[("want", jbytes(want)), ("got", jstr(&format!("{:?}", other.map(|t| show(&t)).map_err(|e| e.get_code()))))])),
            }
        }
    });
    // ---- the text of a value does not depend on what the formatter already holds (a header, earlier data, an earlier
    //      unit) nor on the kind of formatter
    run_cases(cfg, "behind-other-output", cfg.n(10, 200_000, 8_000_000), rep, |rng, ctx| {
        use crate::mon::dev::{val_fmt, val_text};
        bump(ctx, 1);
        let v = crate::gen::scen::gen_val(rng);
        let alone = match val_text(&v) {
            Ok(t) => t,
            Err(_) => return,
        };
        let prefix: &[u8] = *rng.pick(&[&b"HDR "[..], b"1,", b"1;", b"\"x\",", b"\n", b"#", b"A:B "]);
        ctx.nontrivial(mix(hash_bytes(&alone), hash_bytes(prefix)));
        let mut want = prefix.to_vec();
        want.extend_from_slice(&alone);
        let mut grow: Vec<u8> = prefix.to_vec();
        let r1 = val_fmt(&v, &mut grow);
        let kind = format!("{:?}", v);
        let kind = kind.split('(').next().unwrap_or("?").to_string();
        ctx.count(&format!("behind-other-output.{}", kind));
        if r1.is_err() || grow != want {
            ctx.violation(&format!("C09:{}:text-depends-on-what-the-formatter-already-holds:Vec", kind), jobj(&[("value", jstr(&format!("{:?}", v))), ("alone", jbytes(&alone)), ("behind", jbytes(prefix)), ("got", jbytes(&grow))]));
        }
        if want.len() <= 4096 {
            let mut fixed: ArrayVec<u8, 4096> = ArrayVec::new();
            fixed.try_extend_from_slice(prefix).unwrap();
            let r2 = val_fmt(&v, &mut fixed);
            if r2.is_err() || fixed.as_slice() != &want[..] {
                ctx.violation(&format!("C09:{}:text-depends-on-what-the-formatter-already-holds:ArrayVec", kind), jobj(&[("value", jstr(&format!("{:?}", v))), ("alone", jbytes(&alone)), ("behind", jbytes(prefix)), ("got", jbytes(fixed.as_slice()))]));
            }
            // and alone in the fixed-capacity formatter
            let mut fixed: ArrayVec<u8, 4096> = ArrayVec::new();
            let r3 = val_fmt(&v, &mut fixed);
            if r3.is_err() || fixed.as_slice() != &alone[..] {
                ctx.violation(&format!("C09:{}:text-differs-between-formatters", kind), jobj(&[("value", jstr(&format!("{:?}", v))), ("Vec", jbytes(&alone)), ("ArrayVec", jbytes(fixed.as_slice()))]));
            }
        }
    });
    // ---- lists of other element kinds: the text is the comma-joined texts of the elements formatted alone
    run_cases(cfg, "lists-of-any-kind", cfg.n(10, 60_000, 2_400_000), rep, |rng, ctx| {
        fn check<T: ResponseData + Clone>(ctx: &mut Ctx, kind: &str, items: &[T]) {
            bump(ctx, 1);
            let mut want: Vec<u8> = Vec::new();
            for (i, it) in items.iter().enumerate() {
                if i > 0 {
                    want.push(b',');
                }
                match fmt(it) {
                    Ok(t) => want.extend_from_slice(&t),
                    Err(_) => return,
                }
            }
            let v: Vec<T> = items.to_vec();
            let mut av: ArrayVec<T, 8> = ArrayVec::new();
            for it in items.iter().take(8) {
                av.push(it.clone());
            }
            for (nm, r) in [("Vec", fmt(&v)), ("ArrayVec", fmt(&av))] {
                ctx.count(&format!("list-of.{}", kind));
                match r {
                    Ok(t) if t == want => {}
                    other => ctx.violation(&format!("C09:list-of-{}:{}:text-is-not-the-comma-joined-element-texts", kind, nm), jobj(&[("want", jbytes(&want)), ("got", jstr(&format!("{:?}", other.map(|t| show(&t)).map_err(|e| e.get_code()))))])),
                }
            }
        }
        let n = 1 + rng.usize(8);
        let p = crate::gen::scen::pools();
        ctx.nontrivial(rng.next());
        match rng.usize(6) {
            0 => check(ctx, "string", &(0..n).map(|_| *rng.pick(&p.ascii)).collect::<Vec<&[u8]>>()),
            1 => check(ctx, "f64", &(0..n).map(|_| if rng.chance(1, 6) { *rng.pick(&[f64::NAN, f64::INFINITY, -0.0, f64::MAX]) } else { f64::from_bits(rng.next()) }).collect::<Vec<f64>>()),
            2 => check(ctx, "bool", &(0..n).map(|_| rng.bool()).collect::<Vec<bool>>()),
            3 => check(ctx, "error-item", &(0..n).map(|_| { let e = Error::custom(rng.next() as i16, *rng.pick(&p.ascii)); if rng.bool() { e.extended(*rng.pick(&p.ascii)) } else { e } }).collect::<Vec<Error>>()),
            4 => check(ctx, "enum", &(0..n).map(|_| *rng.pick(&crate::props::enums_fixed::FMT_ALL)).collect::<Vec<_>>()),
            _ => check(ctx, "u64", &(0..n).map(|_| rng.next() >> rng.usize(64)).collect::<Vec<u64>>()),
        }
    });
    // ---- enums
    run_cases(cfg, "enums", 1, rep, |_rng, ctx| {
        macro_rules! en {
            ($all:expr, $ty:ty) => {
                for v in $all {
                    bump(ctx, 1);
                    ctx.nontrivial(hash_bytes(v.mnemonic()));
                    match fmt(&v) {
                        Err(e) => ctx.violation("C09:enum:format-failed", jobj(&[("variant", jstr(&format!("{:?}", v))), ("error", e.get_code().to_string())])),
                        Ok(text) => {
                            let suffix = v.mnemonic().iter().rev().take_while(|c| c.is_ascii_digit()).count();
                            let kind = if suffix == 0 { "no-suffix" } else if &v.mnemonic()[v.mnemonic().len() - suffix..] == b"1" { "suffix-1" } else { "suffix-other" };
                            if !is_chardata(&text) {
                                ctx.violation(&format!("C09:enum:text-is-not-character-data:{}", kind), jobj(&[("variant", jstr(&format!("{:?}", v))), ("text", jbytes(&text))]));
                            }
                            match <$ty>::try_from(Token::CharacterProgramData(&text)) {
                                Ok(b) if b == v => ctx.count("enum.variant-roundtrips"),
                                other => ctx.violation(&format!("C09:enum:emitted-text-does-not-select-same-variant:{}", kind), jobj(&[("variant", jstr(&format!("{:?}", v))), ("mnemonic", jbytes(v.mnemonic())), ("text", jbytes(&text)), ("selects", jstr(&format!("{:?}", other.map_err(|e| e.get_code()))))])),
                            }
                        }
                    }
                }
            };
        }
        en!(FMT_ALL, Fmt);
        en!(src_all(), Src);
    });
    // ---- error-queue items
    let before = rep.counters.get("stage.errors-all-standard.truncated").copied();
    run_cases(cfg, "errors-all-standard", 64, rep, |_rng, ctx| {
        let lo = -32768i32 + ctx.index as i32 * 1024;
        for c in lo..lo + 1024 {
            if let Some(e) = ErrorCode::get_error(c as i16) {
                ctx.nontrivial(c as u16 as u64);
                check_error_item(ctx, Error::new(e));
                check_error_item(ctx, Error::new(e).extended(b"extra info"));
                check_error_item(ctx, Error::new(e).extended(b"say \"hi\"; ok"));
            }
        }
    });
    let complete = cfg.only.is_none() && cfg.shard.1 == 1 && rep.counters.get("stage.errors-all-standard.truncated").copied() == before;
    rep.exhaustive.insert("every standard ErrorCode (found by sweeping get_error over all i16), plain and with two extended texts".into(), complete);
    run_cases(cfg, "errors-custom", cfg.n(20, 300_000, 6_000_000), rep, |rng, ctx| {
        let p = pools();
        // mostly short texts; sometimes a long message and/or long extended text (the item must still denote
        // exactly what was given, whatever its length)
        let limit = if ctx.cfg.tiny { 12 } else { p.long_ascii.len() };
        let msg = if rng.chance(1, 8) { p.long_ascii[rng.usize(limit)] } else { *rng.pick(&p.ascii) };
        let ext = if rng.chance(1, 8) { p.long_ascii[rng.usize(limit)] } else { *rng.pick(&p.ascii) };
        if msg.len() + ext.len() > 90 {
            ctx.count("errors.long-text");
        }
        let code = match rng.usize(4) {
            0 => rng.next() as i16,
            1 => *rng.pick(&[i16::MIN, i16::MAX, -1, 1, 0, -350, -399, -300]),
            _ => rng.range(1, 32767) as i16,
        };
        ctx.nontrivial(mix(code as u64, hash_bytes(msg) ^ hash_bytes(ext)));
        let e = Error::custom(code, msg);
        check_error_item(ctx, e);
        check_error_item(ctx, e.extended(ext));
        // relations between the two texts: extended text equal to the description, a prefix of it, empty
        check_error_item(ctx, e.extended(msg));
        check_error_item(ctx, e.extended(&msg[..msg.len() / 2]));
        check_error_item(ctx, e.extended(b""));
        // the same for a standard error wrapped with its own description as device-dependent info
        let std_codes: [ErrorCode; 6] = [ErrorCode::InvalidExpression, ErrorCode::DataOutOfRange, ErrorCode::NoError, ErrorCode::QueueOverflow, ErrorCode::SyntaxError, ErrorCode::OperationComplete];
        let sc = *rng.pick(&std_codes);
        check_error_item(ctx, Error::new(sc).extended(sc.get_message()));
    });
}
