//! C03 — mnemonic matching: library result == the property's iff, both directions.
use crate::fw::*;
use crate::gen::names::*;
use crate::refm::mnemonic::*;
use scpi::parser::tokenizer::Token;
use scpi::parser::{mnemonic_compare, mnemonic_match};

fn check(ctx: &mut Ctx, def: &[u8], cand: &[u8]) {
    bump(ctx, 1);
    let lib = mnemonic_match(def, cand);
    let t1 = Token::ProgramMnemonic(cand).match_program_header(unsafe_static(def));
    let t2 = Token::CharacterProgramData(cand).match_program_header(unsafe_static(def));
    if t1 != lib || t2 != lib {
        ctx.violation(
            "C03:match_program_header-differs-from-mnemonic_match",
            jobj(&[("def", jbytes(def)), ("cand", jbytes(cand)), ("mnemonic_match", lib.to_string()), ("as_mnemonic", t1.to_string()), ("as_chardata", t2.to_string())]),
        );
    }
    match ref_match(def, cand) {
        None => ctx.count("unspecified(leading-zero suffix or no alpha part)"),
        Some(exp) => {
            ctx.count(if exp { "expected.match" } else { "expected.nomatch" });
            if cand.first().map(|c| c.to_ascii_uppercase()) == def.first().map(|c| c.to_ascii_uppercase()) {
                ctx.nontrivial(mix(hash_bytes(def), hash_bytes(cand)));
            }
            if lib != exp {
                let sig = if lib { "C03:matches-but-must-not" } else { "C03:must-match-but-does-not" };
                ctx.violation(sig, jobj(&[("def", jbytes(def)), ("cand", jbytes(cand)), ("expected", exp.to_string()), ("library", lib.to_string())]));
            }
        }
    }
    // keyword comparison (MIN/MAX/INF/DEF/UP/DOWN/ONCE ...): alpha-only rule on the suffix-less head
    let (dh, ds) = split_suffix(def);
    if ds.is_empty() && !cand.is_empty() {
        let exp = ref_alpha_match(dh, cand);
        let lib = mnemonic_compare(def, cand);
        ctx.count("compare.checked");
        if exp != lib {
            let sig = if lib { "C03:compare-matches-but-must-not" } else { "C03:compare-must-match-but-does-not" };
            ctx.violation(sig, jobj(&[("def", jbytes(def)), ("cand", jbytes(cand)), ("expected", exp.to_string()), ("library", lib.to_string())]));
        }
    } else if !cand.is_empty() {
        // on a definition that carries a suffix the bare comparison knows no suffix rule and may refuse more than the
        // rule allows (the suffix-aware entry point is mnemonic_match), but it is an observation point of the same
        // iff: whatever it accepts must match by the rule
        if mnemonic_compare(def, cand) {
            ctx.count("compare.accepts(suffixed definition)");
            if ref_match(def, cand) == Some(false) {
                ctx.violation("C03:compare-matches-but-must-not:suffixed-definition", jobj(&[("def", jbytes(def)), ("cand", jbytes(cand))]));
            }
        }
    }
}

/// match_program_header wants `&'a [u8]` tied to the token lifetime; the borrow is only used
/// during the call.
fn unsafe_static<'a>(s: &'a [u8]) -> &'a [u8] {
    s
}

const CAND_ALPHABET: &[u8] = b"ABCDEFGHIJKLMNOPQRSTUVWXYZabcdefghijklmnopqrstuvwxyz0123456789_";

pub fn candidates(rng: &mut Rng, def: &[u8], out: &mut Vec<Vec<u8>>) {
    let (head, suf) = split_suffix(def);
    let sl = short_len(head);
    let short = &head[..sl];
    // all case patterns of short and long form (exhaustive up to 2^12)
    for form in [short, head] {
        let n = form.len();
        for mask in 0u32..(1 << n) {
            let v: Vec<u8> = form
                .iter()
                .enumerate()
                .map(|(i, c)| if mask >> i & 1 == 1 { c.to_ascii_lowercase() } else { c.to_ascii_uppercase() })
                .collect();
            // with a few suffix variants (only for a subset of masks to bound the volume)
            if mask % 7 == 0 || n <= 6 {
                for sv in suffix_variants(suf) {
                    let mut w = v.clone();
                    w.extend_from_slice(&sv);
                    if w.len() <= 12 {
                        out.push(w);
                    }
                }
            } else {
                let mut w = v.clone();
                w.extend_from_slice(suf);
                out.push(w);
            }
        }
    }
    // every proper prefix and one-character extensions of the long form
    for k in 1..=head.len() {
        for sv in suffix_variants(suf) {
            let mut w = random_case(rng, &head[..k]);
            w.extend_from_slice(&sv);
            out.push(w);
        }
    }
    for c in [b'A', b'z', b'_', *head.last().unwrap()] {
        let mut w = head.to_vec();
        w.push(c);
        w.extend_from_slice(suf);
        out.push(random_case(rng, &w));
        let mut w = short.to_vec();
        w.push(c);
        w.extend_from_slice(suf);
        out.push(random_case(rng, &w));
    }
    // single-character substitution / insertion / deletion
    let full: Vec<u8> = def.to_vec();
    for base in [full.clone(), { let mut s = short.to_vec(); s.extend_from_slice(suf); s }] {
        for i in 0..base.len() {
            for c in [b'A', b'b', b'7', b'_', b'0', b'1'] {
                let mut w = base.clone();
                w[i] = c;
                out.push(w);
                let mut w = base.clone();
                w.insert(i, c);
                if w.len() <= 12 {
                    out.push(w);
                }
            }
            let mut w = base.clone();
            w.remove(i);
            if !w.is_empty() {
                out.push(w);
            }
        }
    }
    // random strings
    for _ in 0..40 {
        let n = 1 + rng.usize(12);
        let w: Vec<u8> = (0..n).map(|_| *rng.pick(CAND_ALPHABET)).collect();
        out.push(w);
    }
}

fn suffix_variants(defined: &[u8]) -> Vec<Vec<u8>> {
    let mut v: Vec<Vec<u8>> = vec![vec![], b"0".to_vec(), b"1".to_vec(), b"01".to_vec(), b"2".to_vec(), b"11".to_vec(), defined.to_vec()];
    if !defined.is_empty() {
        // defined+1 and leading-zero form
        if let Ok(n) = std::str::from_utf8(defined).unwrap().parse::<u64>() {
            v.push((n + 1).to_string().into_bytes());
            v.push(format!("0{}", n).into_bytes());
            if n >= 10 {
                v.push((n / 10).to_string().into_bytes());
            }
        }
    }
    v
}

/// The same iff observed where header matching actually happens: the command-tree dispatcher. `def` is a leaf,
/// a branch and a default leaf in three small trees; a candidate sent as header mnemonic must reach the handler
/// exactly when it matches, and fail with -113 without reaching any handler otherwise.
fn check_dispatch(ctx: &mut Ctx, def: &[u8], cands: &[Vec<u8>]) {
    use crate::mon::dev::{Dev, Script};
    use crate::mon::tree::{Built, Spec};
    let lexable = |c: &Vec<u8>| !c.is_empty() && c.len() <= 12 && c[0].is_ascii_alphabetic() && c.iter().all(|b| b.is_ascii_alphanumeric() || *b == b'_');
    let scripts = || vec![Script { id: 0, omnivore: true, ..Default::default() }, Script { id: 1, omnivore: true, ..Default::default() }];
    // ZQ9 / WQ8 cannot match any generated definition's forms unless the definition is one of them
    if ref_match(def, b"ZQ9") != Some(false) || ref_match(def, b"WQ8") != Some(false) {
        return;
    }
    let t_leaf: Built<Dev, Script> = Built::new(&[Spec::leaf(def, false, 0), Spec::leaf(b"ZQ9", false, 1)], scripts());
    let t_branch: Built<Dev, Script> = Built::new(&[Spec::branch(def, false, vec![Spec::leaf(b"WQ8", false, 0)]), Spec::leaf(b"ZQ9", false, 1)], scripts());
    let t_default: Built<Dev, Script> = Built::new(&[Spec::branch(b"ZQ9", false, vec![Spec::leaf(def, true, 0), Spec::leaf(b"WQ8", false, 1)])], scripts());
    let mut dev = Dev::new();
    let mut c = scpi::Context::default();
    let mut out: Vec<u8> = Vec::new();
    for cand in cands.iter().filter(|c| lexable(c)) {
        let exp = match ref_match(def, cand) {
            Some(e) => e,
            None => continue,
        };
        // a candidate that (possibly) addresses one of the two fixed sibling names says nothing about `def`
        if ref_match(b"ZQ9", cand) != Some(false) || ref_match(b"WQ8", cand) != Some(false) {
            continue;
        }
        for (which, tree, msg) in [
            ("leaf", &t_leaf, cand.clone()),
            ("branch", &t_branch, [&cand[..], b":WQ8"].concat()),
            ("default-leaf-spelled-out", &t_default, [b"ZQ9:", &cand[..], b"?"].concat()),
        ] {
            bump(ctx, 1);
            dev.clear();
            out.clear();
            let r = tree.root().run(&msg, &mut dev, &mut c, &mut out);
            let inv = dev.invocations();
            let reached = inv.len() == 1 && inv[0].0 == 0 && r.is_ok();
            let refused = inv.is_empty() && matches!(&r, Err(e) if e.get_code() == -113);
            ctx.count(if exp { "dispatch.expected.match" } else { "dispatch.expected.nomatch" });
            if (exp && !reached) || (!exp && !refused) {
                let sig = if exp { "C03:dispatch:must-match-but-header-is-undefined" } else { "C03:dispatch:matches-but-must-not" };
                ctx.violation(&format!("{}:{}", sig, which), jobj(&[("def", jbytes(def)), ("message", jbytes(&msg)), ("expected_match", exp.to_string()), ("invocations", jstr(&format!("{:?}", inv))), ("result", jstr(&format!("{:?}", r.as_ref().map_err(|e| e.get_code()))))]));
            }
        }
    }
}

/// Instances of one mnemonic side by side (`SENSe`, `SENSe2`, `SENSe3` as siblings, in either declaration order, and
/// one of them behind a default branch): a received mnemonic reaches exactly the instance it matches, -113 otherwise.
fn check_dispatch_instances(ctx: &mut Ctx, rng: &mut Rng, def: &[u8], cands: &[Vec<u8>]) {
    use crate::mon::dev::{Dev, Script};
    use crate::mon::tree::{Built, Spec};
    use crate::refm::mnemonic::split_suffix;
    let (stem, suf) = split_suffix(def);
    if stem.is_empty() || stem.len() > 10 || ref_match(def, b"WQ8") != Some(false) {
        return;
    }
    // the definition itself plus the same stem with other suffixes: none (= 1) and two further numbers
    let mut sufs: Vec<&[u8]> = vec![suf];
    for o in [&b""[..], b"2", b"3", b"12", b"21"] {
        let clash = sufs.iter().any(|s| (s.is_empty() || *s == b"1") && (o.is_empty() || o == b"1") || *s == o);
        if !clash && sufs.len() < 4 {
            sufs.push(o);
        }
    }
    let mut defs: Vec<Vec<u8>> = sufs.iter().map(|s| [stem, s].concat()).filter(|d| d.len() <= 12).collect();
    if defs.len() < 2 {
        return;
    }
    // declaration order: as is, reversed or shuffled
    match rng.usize(3) {
        0 => {}
        1 => defs.reverse(),
        _ => {
            for i in (1..defs.len()).rev() {
                defs.swap(i, rng.usize(i + 1));
            }
        }
    }
    let scripts: Vec<Script> = (0..defs.len() as u32 + 1).map(|i| Script { id: i, omnivore: true, ..Default::default() }).collect();
    // siblings at the root; and the last instance moved behind a default branch (still addressable by its own name)
    let flat: Vec<Spec> = defs.iter().enumerate().map(|(i, d)| Spec::leaf(d, false, i)).collect();
    let mut nested: Vec<Spec> = defs.iter().enumerate().take(defs.len() - 1).map(|(i, d)| Spec::leaf(d, false, i)).collect();
    nested.insert(0, Spec::branch(b"WQ8", true, vec![Spec::leaf(&defs[defs.len() - 1], false, defs.len() - 1)]));
    let t_flat: Built<Dev, Script> = Built::new(&flat, scripts.clone());
    let t_nested: Built<Dev, Script> = Built::new(&nested, scripts);
    let lexable = |c: &Vec<u8>| !c.is_empty() && c.len() <= 12 && c[0].is_ascii_alphabetic() && c.iter().all(|b| b.is_ascii_alphanumeric() || *b == b'_');
    let mut dev = Dev::new();
    let mut c = scpi::Context::default();
    let mut out: Vec<u8> = Vec::new();
    // candidates of the definition plus the forms of every instance
    let mut all: Vec<Vec<u8>> = cands.iter().filter(|c| lexable(c)).cloned().collect();
    for d in &defs {
        all.push(d.clone());
        all.push(d.to_ascii_lowercase());
        let (h, s2) = split_suffix(d);
        let sl = crate::refm::mnemonic::short_len(h);
        all.push([&h[..sl], s2].concat());
        all.push([&h[..sl], &b"1"[..]].concat());
        all.push(h[..sl].to_vec());
    }
    for cand in all.iter().filter(|c| lexable(c)) {
        if ref_match(b"WQ8", cand) != Some(false) {
            continue;
        }
        let m: Vec<Option<bool>> = defs.iter().map(|d| ref_match(d, cand)).collect();
        if m.iter().any(|x| x.is_none()) || m.iter().filter(|x| **x == Some(true)).count() > 1 {
            continue;
        }
        let want: Option<u32> = m.iter().position(|x| *x == Some(true)).map(|i| i as u32);
        for (which, tree) in [("siblings", &t_flat), ("instance-behind-default-branch", &t_nested)] {
            bump(ctx, 1);
            dev.clear();
            out.clear();
            let r = tree.root().run(cand, &mut dev, &mut c, &mut out);
            let inv = dev.invocations();
            let ok = match want {
                Some(h) => inv.len() == 1 && inv[0].0 == h && r.is_ok(),
                None => inv.is_empty() && matches!(&r, Err(e) if e.get_code() == -113),
            };
            ctx.count(if want.is_some() { "dispatch.instances.expected.match" } else { "dispatch.instances.expected.nomatch" });
            if !ok {
                let sig = if want.is_some() { "C03:dispatch:instance-that-matches-not-reached" } else { "C03:dispatch:instances:matches-but-must-not" };
                ctx.violation(&format!("{}:{}", sig, which), jobj(&[("instances_in_declaration_order", jstr(&format!("{:?}", defs.iter().map(|d| show(d)).collect::<Vec<_>>()))), ("message", jbytes(cand)), ("expected_instance", jstr(&format!("{:?}", want))), ("invocations", jstr(&format!("{:?}", inv))), ("result", jstr(&format!("{:?}", r.as_ref().map_err(|e| e.get_code()))))]));
            }
        }
    }
}

pub fn run(cfg: &Cfg, rep: &mut Report) {
    // (1) directed + random definitions
    let n = cfg.n(30, 36_000, 4_800_000);
    run_cases(cfg, "directed", n, rep, |rng, ctx| {
        let def = gen_def(rng);
        let mut cands = Vec::new();
        candidates(rng, &def, &mut cands);
        let nc = cands.len();
        for c in &cands {
            check(ctx, &def, c);
        }
        if ctx.index % 8 == 0 {
            check_dispatch(ctx, &def, &cands);
        }
        if ctx.index % 8 == 4 {
            check_dispatch_instances(ctx, rng, &def, &cands);
        }
        ctx.sample(|| jobj(&[("definition", jbytes(&def)), ("candidates", nc.to_string()), ("first_candidates", jarr(&cands.iter().take(6).map(|c| jbytes(c)).collect::<Vec<_>>()))]));
    });
    // (1b) the rule applied to character data by derived enums (`from_mnemonic` is a chain of mnemonic_match guards
    // generated by scpi-derive): the C20 corpus, a few candidates per variant
    crate::props::c20::corpus_stage(cfg, rep, "C03", "derived-enums", cfg.n(1, 6, 120));
    // (2) well-known SCPI mnemonics and keywords
    const KNOWN: &[&[u8]] = &[
        b"MAXimum", b"MINimum", b"DEFault", b"UP", b"DOWN", b"INFinity", b"NINFinity", b"NAN", b"ONCE", b"ON", b"OFF", b"TRIGger", b"TRIGger2",
        b"CHANnel1", b"CHANnel10", b"SYSTem", b"ERRor", b"NEXT", b"STATus", b"OPERation", b"QUEStionable", b"PTRansition", b"L125", b"ASCii1", b"ASCii2", b"REAL", b"A", b"Z9",
    ];
    run_cases(cfg, "known", KNOWN.len() as u64 * cfg.n(1, 20, 200), rep, |rng, ctx| {
        let def = KNOWN[(ctx.index % KNOWN.len() as u64) as usize];
        let mut cands = Vec::new();
        candidates(rng, def, &mut cands);
        for k in KNOWN {
            cands.push(k.to_vec());
            cands.push(random_case(rng, k));
        }
        for c in &cands {
            check(ctx, def, c);
        }
    });
    // (3) bounded-exhaustive sub-space: defs = short<=2 over {A,B}, tail<=2 over {a,b}, suffix in {none,1,2};
    //     candidates = all strings of length 1..=5 over {A,B,a,b,C,0,1,2,_}
    let mut defs: Vec<Vec<u8>> = Vec::new();
    for sl in 1..=2usize {
        for sm in 0..(1 << sl) {
            for tl in 0..=2usize {
                for tm in 0..(1 << tl) {
                    for suf in ["", "1", "2"] {
                        let mut d = Vec::new();
                        for i in 0..sl {
                            d.push(if sm >> i & 1 == 1 { b'B' } else { b'A' });
                        }
                        for i in 0..tl {
                            d.push(if tm >> i & 1 == 1 { b'b' } else { b'a' });
                        }
                        d.extend_from_slice(suf.as_bytes());
                        defs.push(d);
                    }
                }
            }
        }
    }
    let maxlen = if cfg.tiny { 2 } else if cfg.quick() { 4 } else { 5 };
    let ndefs = defs.len() as u64;
    let before = rep.counters.get("stage.exhaustive.truncated").copied();
    run_cases(cfg, "exhaustive", ndefs, rep, |_rng, ctx| {
        let def = &defs[ctx.index as usize];
        const AL: &[u8] = b"ABabC012_";
        let mut buf = Vec::new();
        for len in 1..=maxlen {
            let total = (AL.len() as u64).pow(len as u32);
            for mut k in 0..total {
                buf.clear();
                for _ in 0..len {
                    buf.push(AL[(k % AL.len() as u64) as usize]);
                    k /= AL.len() as u64;
                }
                check(ctx, def, &buf);
            }
        }
    });
    let complete = cfg.only.is_none() && cfg.shard.1 == 1 && rep.counters.get("stage.exhaustive.truncated").copied() == before;
    rep.exhaustive.insert(format!("defs(short<=2 of AB, tail<=2 of ab, suffix none/1/2) x candidates(len<={} over ABabC012_)", maxlen), complete);
}
