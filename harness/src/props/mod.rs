//! One workload + oracle module per property.
use crate::fw::{Cfg, Report};

pub mod c03;

pub fn run(cfg: &Cfg, rep: &mut Report) -> bool {
    match cfg.prop.as_str() {
        "C03" => c03::run(cfg, rep),
        _ => return false,
    }
    true
}
