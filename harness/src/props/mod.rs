//! One workload + oracle module per property.
use crate::fw::{Cfg, Report};

pub mod c02;
pub mod c03;
pub mod c04;
pub mod c05;
pub mod c06;
pub mod c10;
pub mod c11;
pub mod c12;
pub mod c14;

pub fn run(cfg: &Cfg, rep: &mut Report) -> bool {
    match cfg.prop.as_str() {
        "C02" => c02::run(cfg, rep),
        "C03" => c03::run(cfg, rep),
        "C04" => c04::run(cfg, rep),
        "C05" => c05::run(cfg, rep),
        "C06" => c06::run(cfg, rep),
        "C10" => c10::run(cfg, rep),
        "C11" => c11::run(cfg, rep),
        "C12" => c12::run(cfg, rep),
        "C14" => c14::run(cfg, rep),
        _ => return false,
    }
    true
}
