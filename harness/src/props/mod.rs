//! One workload + oracle module per property.
use crate::fw::{Cfg, Report};

pub mod c01;
pub mod c01_boundary;
pub mod c02;
pub mod c03;
pub mod c04;
pub mod c05;
pub mod c06;
pub mod c07;
pub mod c08;
pub mod c09;
pub mod c17;
pub mod c18;
pub mod c19;
pub mod c20;
pub mod enums_corpus;
pub mod enums_fixed;
pub mod status;
pub mod c10;
pub mod c11;
pub mod c12;
pub mod c14;

pub fn run(cfg: &Cfg, rep: &mut Report) -> bool {
    match cfg.prop.as_str() {
        "C01" => c01::run(cfg, rep),
        "C02" => c02::run(cfg, rep),
        "C03" => c03::run(cfg, rep),
        "C04" => c04::run(cfg, rep),
        "C05" => {
            c05::run(cfg, rep);
            // the hook as the documented device wiring sees it, with the library's own commands as handlers
            status::run(cfg, rep, status::Focus::C05)
        }
        "C06" => c06::run(cfg, rep),
        "C07" => c07::run(cfg, rep),
        "C08" => c08::run(cfg, rep),
        "C09" => c09::run(cfg, rep),
        "C10" => {
            c10::run(cfg, rep);
            // framing of the answers of the library's own commands (status machine)
            status::run(cfg, rep, status::Focus::C10)
        }
        "C11" => c11::run(cfg, rep),
        "C12" => c12::run(cfg, rep),
        "C13" => status::run(cfg, rep, status::Focus::C13),
        "C14" => c14::run(cfg, rep),
        "C15" => status::run(cfg, rep, status::Focus::C15),
        "C16" => status::run(cfg, rep, status::Focus::C16),
        "C17" => c17::run(cfg, rep),
        "C18" => c18::run(cfg, rep),
        "C19" => c19::run(cfg, rep),
        "C20" => c20::run(cfg, rep),
        _ => return false,
    }
    true
}
