//! C14 — error number -> ESR class. Exhaustive over all 65536 numbers, plus a cause-known workload
//! checking that library-raised syntax/header/type faults are command errors and value faults are
//! execution errors.
use crate::fw::*;
use crate::refm::errclass::*;
use arrayvec::ArrayVec;
use scpi::error::{Error, ErrorCode};
use scpi::parser::response::{Formatter, ResponseData};
use scpi::parser::tokenizer::{Token, Tokenizer};

fn first_err(input: &[u8], params: bool) -> Option<i16> {
    let t = if params { Tokenizer::new_params(input) } else { Tokenizer::new(input) };
    let mut n = 0;
    for tok in t {
        n += 1;
        if let Err(e) = tok {
            return Some(e.get_code());
        }
        if n > input.len() + 2 {
            return None;
        }
    }
    None
}

fn expect_class(ctx: &mut Ctx, what: &str, cause: &str, code: Option<i16>, want_cmd: bool) {
    bump(ctx, 1);
    ctx.count(&format!("cause.{}", cause));
    ctx.nontrivial(hash_str(what));
    match code {
        None => ctx.violation(&format!("C14:no-error-raised:{}", cause), jobj(&[("case", jstr(what))])),
        Some(c) => {
            let ok = if want_cmd { is_command_error(c) } else { is_execution_error(c) };
            if !ok {
                ctx.violation(
                    &format!("C14:{}-fault-reported-outside-{}-class:{}", if want_cmd { "syntax/header/type" } else { "value" }, if want_cmd { "command" } else { "execution" }, cause),
                    jobj(&[("case", jstr(what)), ("code", c.to_string())]),
                );
            }
        }
    }
}

/// Value faults on the response side: a value the library cannot send (a string with bytes outside ASCII, a block longer than
/// the nine length digits of a definite-length header can announce) is a fault of the value - execution-error class - not of
/// the controller's syntax. The gigabyte payload is zero pages that are never touched (the refusal comes from its length).
fn response_value_faults(cfg: &Cfg, rep: &mut Report) {
    if cfg.tiny {
        return;
    }
    run_cases(cfg, "response-value-faults", 4, rep, |_rng, ctx| {
        use scpi::parser::format::Arbitrary;
        use scpi::parser::response::ResponseData;
        static BIG: std::sync::OnceLock<Vec<u8>> = std::sync::OnceLock::new();
        let mut out: Vec<u8> = Vec::new();
        match ctx.index {
            0 | 1 => {
                let big = BIG.get_or_init(|| vec![0u8; 1_000_000_123]);
                let n = if ctx.index == 0 { 1_000_000_000 } else { big.len() };
                let r = Arbitrary(&big[..n]).format_response_data(&mut out);
                expect_class(ctx, &format!("block response of {} bytes", n), "response.block-longer-than-nine-length-digits", r.err().map(|e| e.get_code()), false);
                // and through &str (sent as a block)
                if let Ok(s) = std::str::from_utf8(&big[..n]) {
                    let mut out2: Vec<u8> = Vec::new();
                    let r = s.format_response_data(&mut out2);
                    expect_class(ctx, &format!("&str response of {} bytes", n), "response.block-longer-than-nine-length-digits", r.err().map(|e| e.get_code()), false);
                }
            }
            2 => {
                let r = (&b"caf\xe9"[..]).format_response_data(&mut out);
                expect_class(ctx, "string response with a byte outside ASCII", "response.string-not-ascii", r.err().map(|e| e.get_code()), false);
            }
            _ => {
                let r = scpi::parser::format::Character(b"").format_response_data(&mut out);
                // (an empty character datum is sent as an empty field: no fault) - counted, not judged
                ctx.count(if r.is_ok() { "response.empty-character-datum.ok" } else { "response.empty-character-datum.err" });
            }
        }
    });
}

pub fn run(cfg: &Cfg, rep: &mut Report) {
    response_value_faults(cfg, rep);
    // ---- exhaustive over all i16
    let before = rep.counters.get("stage.all-codes.truncated").copied();
    run_cases(cfg, "all-codes", 64, rep, |_rng, ctx| {
        let lo = -32768i32 + ctx.index as i32 * 1024;
        for c in lo..lo + 1024 {
            let code = c as i16;
            bump(ctx, 1);
            let want = esr_class(code);
            ctx.nontrivial(code as u16 as u64);
            let got = Error::custom(code, b"x").esr_mask();
            let got2 = ErrorCode::Custom(code, b"x").esr_mask();
            let got3 = Error::custom(code, b"x").extended(b"e").esr_mask();
            if got != want || got2 != want || got3 != want {
                let zone = match code { 1..=i16::MAX => "positive", -99..=0 => "0..-99", -899..=-100 => "century", _ => "below-899" };
                ctx.violation(&format!("C14:custom-code-wrong-class:{}:{}", zone, if (-(code as i32)) % 100 == 0 || (-(code as i32)) % 100 == 99 { "edge" } else { "inner" }),
                    jobj(&[("code", code.to_string()), ("esr_mask", got.to_string()), ("expected", want.to_string())]));
            }
            ctx.count(&format!("class.{:#04x}", want));
            if let Some(e) = ErrorCode::get_error(code) {
                ctx.count("standard-codes");
                if e.get_code() != code {
                    ctx.violation("C14:get_error-returns-error-with-different-code", jobj(&[("asked", code.to_string()), ("got", e.get_code().to_string())]));
                }
                if e.esr_mask() != want || Error::new(e).esr_mask() != want {
                    ctx.violation("C14:standard-code-wrong-class", jobj(&[("code", code.to_string()), ("esr_mask", e.esr_mask().to_string()), ("expected", want.to_string())]));
                }
                let m = e.get_message();
                if m.is_empty() || !m.iter().all(|b| (0x20..0x7f).contains(b)) {
                    ctx.violation("C14:standard-message-empty-or-not-printable-ascii", jobj(&[("code", code.to_string()), ("message", jbytes(m))]));
                }
                if Error::new(e).get_code() != code || Error::new(e).get_message() != m {
                    ctx.violation("C14:Error-wrapper-disagrees-with-ErrorCode", jobj(&[("code", code.to_string())]));
                }
            }
        }
    });
    let complete = cfg.only.is_none() && cfg.shard.1 == 1 && rep.counters.get("stage.all-codes.truncated").copied() == before;
    rep.exhaustive.insert("all 65536 i16 error numbers (custom + standard lookup)".into(), complete);

    // ---- well-known standard codes must exist and look themselves up (the statement: "looking a standard code up
    //      yields the error that reports that same code"; the library's own raised errors must be among them)
    run_cases(cfg, "raised-codes", 1, rep, |_rng, ctx| {
        let raised = [
            ErrorCode::SyntaxError, ErrorCode::InvalidCharacter, ErrorCode::InvalidSeparator, ErrorCode::DataTypeError, ErrorCode::ParameterNotAllowed,
            ErrorCode::MissingParameter, ErrorCode::CommandHeaderError, ErrorCode::HeaderSeparatorError, ErrorCode::ProgramMnemonicTooLong, ErrorCode::UndefinedHeader,
            ErrorCode::NumericDataError, ErrorCode::InvalidCharacterInNumber, ErrorCode::InvalidSuffix, ErrorCode::SuffixTooLong, ErrorCode::SuffixNotAllowed,
            ErrorCode::InvalidCharacterData, ErrorCode::CharacterDataTooLong, ErrorCode::StringDataError, ErrorCode::InvalidStringData, ErrorCode::BlockDataError,
            ErrorCode::InvalidBlockData, ErrorCode::ExpressionError, ErrorCode::InvalidExpression, ErrorCode::ExecutionError, ErrorCode::DataOutOfRange,
            ErrorCode::IllegalParameterValue, ErrorCode::OutOfMemory, ErrorCode::DeviceSpecificError, ErrorCode::QueueOverflow, ErrorCode::OperationComplete, ErrorCode::NoError,
        ];
        for e in raised {
            bump(ctx, 1);
            let c = e.get_code();
            match ErrorCode::get_error(c) {
                Some(x) if x == e => ctx.count("lookup.roundtrip"),
                other => ctx.violation("C14:lookup-of-raised-code-does-not-return-it", jobj(&[("code", c.to_string()), ("got", jstr(&format!("{:?}", other)))])),
            }
        }
    });

    // ---- cause-known workload
    let n = cfg.n(20, 120_000, 4_000_000);
    run_cases(cfg, "causes", n, rep, |rng, ctx| {
        let alnum = b"ABCDEFGHIJKLMNOPQRSTUVWXYZabcdefghijklmnopqrstuvwxyz0123456789";
        let word = |rng: &mut Rng, n: usize| -> Vec<u8> {
            let mut v = vec![b'A' + rng.usize(26) as u8];
            for _ in 1..n {
                v.push(*rng.pick(alnum));
            }
            v
        };
        // --- syntax faults found by the lexer (must be command errors)
        let n13 = 13 + rng.usize(8);
        let w = word(rng, n13);
        expect_class(ctx, &format!("mnemonic of {} chars", n13), "mnemonic-too-long", first_err(&w, false), true);
        let mut m = b"CMD ".to_vec();
        m.extend_from_slice(&w);
        expect_class(ctx, &format!("character data of {} chars", n13), "chardata-too-long", first_err(&m, false), true);
        let mut m = b"CMD 1.5 ".to_vec();
        m.extend_from_slice(&w);
        expect_class(ctx, &format!("suffix of {} chars", n13), "suffix-too-long", first_err(&m, false), true);
        let q = if rng.bool() { b'"' } else { b'\'' };
        let mut m = b"CMD ".to_vec();
        m.push(q);
        let wl = 1 + rng.usize(10);
        m.extend_from_slice(&word(rng, wl));
        expect_class(ctx, "unterminated string", "unterminated-string", first_err(&m, false), true);
        let mut m = b"CMD \"ab".to_vec();
        m.push(0x80 + rng.usize(128) as u8);
        m.extend_from_slice(b"cd\"");
        expect_class(ctx, "non-ascii byte in string", "non-ascii", first_err(&m, false), true);
        let mut m = b"CMD".to_vec();
        m.push(0x80 + rng.usize(128) as u8);
        expect_class(ctx, "non-ascii byte in header", "non-ascii", first_err(&m, false), true);
        let len = 5 + rng.usize(90);
        let m = format!("CMD #2{:02}abc", len).into_bytes();
        expect_class(ctx, "truncated definite block", "truncated-block", first_err(&m, false), true);
        expect_class(ctx, "block header with non-digit length", "malformed-block", first_err(b"CMD #2x5abcde", false), true);
        expect_class(ctx, "# at end of input", "malformed-block", first_err(b"CMD #", false), true);
        expect_class(ctx, "doubled colon", "misplaced-colon", first_err(b"A::B", false), true);
        expect_class(ctx, "colon in common command", "misplaced-colon", first_err(b"*A:B", false), true);
        expect_class(ctx, "colon in data", "misplaced-colon", first_err(b"A 1:2", false), true);
        expect_class(ctx, "comma in header", "misplaced-comma", first_err(b"A,1", false), true);
        expect_class(ctx, "doubled comma", "misplaced-comma", first_err(b"A 1,,2", false), true);
        expect_class(ctx, "missing separator after string", "missing-separator", first_err(b"A \"x\"1", false), true);
        expect_class(ctx, "missing separator after block", "missing-separator", first_err(b"A #11xy", false), true);
        expect_class(ctx, "missing separator after expression", "missing-separator", first_err(b"A (1)(2)", false), true);
        expect_class(ctx, "missing separator after non-decimal", "missing-separator", first_err(b"A #HFFG", false), true);
        expect_class(ctx, "number in header", "header-error", first_err(b"1A", false), true);
        expect_class(ctx, "bad number", "numeric-syntax", first_err(b"A 1e", false), true);
        expect_class(ctx, "bad number", "numeric-syntax", first_err(b"A +.", false), true);
        expect_class(ctx, "non-decimal without digits", "numeric-syntax", first_err(b"A #H", false), true);
        expect_class(ctx, "non-decimal with unknown radix", "numeric-syntax", first_err(b"A #Z1", false), true);
        expect_class(ctx, "unterminated expression", "bad-expression", first_err(b"A (1,2", false), true);
        expect_class(ctx, "data after query mark", "query-syntax", first_err(b"A?1", false), true);

        // --- type faults (must be command errors): wrong element kind for the target
        let toks: [(&str, Token); 7] = [
            ("chardata", Token::CharacterProgramData(b"POTATO")),
            ("decimal", Token::DecimalNumericProgramData(b"12")),
            ("suffixed", Token::DecimalNumericSuffixProgramData(b"12", b"V")),
            ("nondecimal", Token::NonDecimalNumericProgramData(12)),
            ("string", Token::StringProgramData(b"abc")),
            ("block", Token::ArbitraryBlockData(b"abc")),
            ("expression", Token::ExpressionProgramData(b"1,2")),
        ];
        for (k, t) in toks.iter() {
            macro_rules! ty {
                ($t:ty, $name:literal, $accept:expr) => {
                    if !$accept.contains(k) {
                        let r: Result<$t, Error> = <$t>::try_from(*t);
                        expect_class(ctx, &format!("{} from {}", $name, k), "wrong-element-type", r.err().map(|e| e.get_code()), true);
                    }
                };
            }
            ty!(u8, "u8", ["decimal", "nondecimal", "chardata"]);
            ty!(i64, "i64", ["decimal", "nondecimal", "chardata"]);
            ty!(f32, "f32", ["decimal", "chardata"]);
            ty!(f64, "f64", ["decimal", "chardata"]);
            ty!(bool, "bool", ["decimal", "chardata"]);
            ty!(&[u8], "&[u8]", ["string"]);
            ty!(&str, "&str", ["string", "block"]);
            ty!(scpi::parser::format::Arbitrary, "Arbitrary", ["block"]);
            ty!(scpi::parser::format::Character, "Character", ["chardata"]);
        }
        // --- value faults (must be execution errors)
        let big = format!("{}", 300 + rng.below(1_000_000));
        expect_class(ctx, "u8 from out-of-range literal", "out-of-range", u8::try_from(Token::DecimalNumericProgramData(big.as_bytes())).err().map(|e| e.get_code()), false);
        expect_class(ctx, "i8 from -129", "out-of-range", i8::try_from(Token::DecimalNumericProgramData(b"-129")).err().map(|e| e.get_code()), false);
        expect_class(ctx, "u16 from 1e9", "out-of-range", u16::try_from(Token::DecimalNumericProgramData(b"1e9")).err().map(|e| e.get_code()), false);
        expect_class(ctx, "i64 from 1e30", "out-of-range", i64::try_from(Token::DecimalNumericProgramData(b"1e30")).err().map(|e| e.get_code()), false);
        expect_class(ctx, "u32 from -1", "out-of-range", u32::try_from(Token::DecimalNumericProgramData(b"-1")).err().map(|e| e.get_code()), false);
        expect_class(ctx, "u8 from #H100", "out-of-range", u8::try_from(Token::NonDecimalNumericProgramData(256)).err().map(|e| e.get_code()), false);
        expect_class(ctx, "i8 from #HFF", "out-of-range", i8::try_from(Token::NonDecimalNumericProgramData(255)).err().map(|e| e.get_code()), false);
        expect_class(ctx, "bool from chardata MAYBE", "not-in-allowed-set", bool::try_from(Token::CharacterProgramData(b"MAYBE")).err().map(|e| e.get_code()), false);
        expect_class(ctx, "enum from unknown mnemonic", "not-in-allowed-set",
            scpi_contrib::scpi1999::NumericValueQuery::try_from(Token::CharacterProgramData(b"POTATO")).err().map(|e| e.get_code()), false);
        {
            // derived enums: a character datum selecting no variant is "not in the allowed set" (value fault) whatever it
            // looks like - a variant's stem with a suffix no variant carries, a partial long form, another word; another
            // element kind is a type fault
            let corpus = crate::props::enums_fixed::all_enums();
            let e = corpus[rng.usize(corpus.len())];
            let m = e.mnemonics[rng.usize(e.mnemonics.len())];
            let mut cands = Vec::new();
            crate::props::c03::candidates(rng, m, &mut cands);
            for c in cands.iter().filter(|c| !c.is_empty() && c.len() <= 12) {
                if e.mnemonics.iter().all(|d| crate::refm::mnemonic::ref_match(d, c) == Some(false)) {
                    let r = (e.try_from_token)(Token::CharacterProgramData(c));
                    let shape = if c.last().map_or(false, |x| x.is_ascii_digit()) { "with-suffix" } else { "no-suffix" };
                    expect_class(ctx, &format!("derived enum from non-matching character datum ({})", shape), "not-in-allowed-set", r.err().map(|x| x.get_code()), false);
                }
            }
            let r = (e.try_from_token)(Token::StringProgramData(m));
            expect_class(ctx, "derived enum from string", "wrong-element-type", r.err().map(|x| x.get_code()), true);
            let r = (e.try_from_token)(Token::DecimalNumericProgramData(b"1"));
            expect_class(ctx, "derived enum from decimal", "wrong-element-type", r.err().map(|x| x.get_code()), true);
        }
        {
            use scpi::units::uom::si::f32::ElectricPotential;
            let r: Result<ElectricPotential, Error> = ElectricPotential::try_from(Token::DecimalNumericSuffixProgramData(b"1", b"HZ"));
            expect_class(ctx, "voltage with suffix HZ", "not-in-allowed-set", r.err().map(|e| e.get_code()), false);
        }
        {
            // a suffix that is not in the set defined for the quantity (same reading as the HZ case above), for plain,
            // amplitude and decibel conversions; only judged when the conversion refuses it (acceptance is C18's business)
            use scpi::parser::suffix::{Amplitude, Db};
            use scpi::units::uom::si::f32::{ElectricCurrent, ElectricPotential, Frequency, Power, Ratio, Time};
            let lit: &[u8] = *rng.pick(&[&b"1"[..], b"2.5", b"-3e1", b"+10"]);
            macro_rules! undefined_suffix {
                ($t:ty, $name:literal, [$($s:literal),+]) => {{
                    let sfx: &[u8] = *rng.pick(&[$(&$s[..]),+]);
                    let sfx: Vec<u8> = sfx.iter().map(|c| if rng.bool() { c.to_ascii_lowercase() } else { *c }).collect();
                    let r: Result<$t, Error> = <$t>::try_from(Token::DecimalNumericSuffixProgramData(lit, &sfx));
                    match r {
                        Err(e) => expect_class(ctx, &format!("{} with a suffix not defined for it", $name), "not-in-allowed-set", Some(e.get_code()), false),
                        Ok(_) => ctx.count("cause.undefined-suffix.accepted(no verdict here)"),
                    }
                }};
            }
            {
                // a finite number that its suffix multiplier scales beyond the storage type: if the conversion refuses it,
                // that is a value fault (out of range)
                let (l, sfx): (&[u8], &[u8]) = *rng.pick(&[(&b"1E36"[..], &b"KV"[..]), (b"-3E35", b"MAV"), (b"3E38", b"KV"), (b"9E37", b"MAV"), (b"1E38", b"GV")]);
                let r: Result<ElectricPotential, Error> = ElectricPotential::try_from(Token::DecimalNumericSuffixProgramData(l, sfx));
                match r {
                    Err(e) => expect_class(ctx, "number scaled beyond the storage type by its suffix multiplier", "out-of-range", Some(e.get_code()), false),
                    Ok(_) => ctx.count("cause.multiplier-overflow.accepted(no verdict here)"),
                }
                let r: Result<Frequency, Error> = Frequency::try_from(Token::DecimalNumericSuffixProgramData(b"2E35", b"GHZ"));
                if let Err(e) = r {
                    expect_class(ctx, "number scaled beyond the storage type by its suffix multiplier", "out-of-range", Some(e.get_code()), false);
                }
            }
            undefined_suffix!(ElectricPotential, "voltage", [b"HZ", b"S", b"W", b"VV", b"OHM", b"KVV", b"DBW"]);
            undefined_suffix!(Frequency, "frequency", [b"V", b"S", b"HZZ", b"KH", b"DBM"]);
            undefined_suffix!(Time, "time", [b"HZ", b"V", b"SS", b"MSEC", b"H"]);
            undefined_suffix!(Amplitude<ElectricPotential>, "voltage amplitude", [b"HZPK", b"SPP", b"WRMS", b"APK", b"HZ", b"PKPK", b"PK", b"PP", b"RMS"]);
            undefined_suffix!(Amplitude<ElectricCurrent>, "current amplitude", [b"VPK", b"HZRMS", b"OHMPP", b"PK", b"RMS"]);
            undefined_suffix!(Db<f32, ElectricPotential>, "voltage level", [b"DBW", b"DBM", b"DBX", b"DB1", b"HZ", b"DBHZ", b"DBA", b"DBMW"]);
            undefined_suffix!(Db<f32, Power>, "power level", [b"DBV", b"DBUV", b"DBX", b"DBMV", b"V"]);
            undefined_suffix!(Db<f32, Ratio>, "ratio level", [b"DBV", b"DBM", b"DBW", b"HZ"]);
            undefined_suffix!(Db<f32, ElectricCurrent>, "current level", [b"DBV", b"DBW", b"DBM", b"V"]);
        }
        {
            // response buffer exhausted
            let mut f: ArrayVec<u8, 4> = ArrayVec::new();
            let r = 123456i32.format_response_data(&mut f);
            expect_class(ctx, "formatting 123456 into ArrayVec<u8,4>", "buffer-exhausted", r.err().map(|e| e.get_code()), false);
            let mut f: ArrayVec<u8, 0> = ArrayVec::new();
            let r = f.push_byte(b'x');
            expect_class(ctx, "push_byte into ArrayVec<u8,0>", "buffer-exhausted", r.err().map(|e| e.get_code()), false);
        }
        {
            // the same fault through Node::run: a response that does not fit a fixed-capacity buffer, empty or still holding
            // an earlier response - whatever the buffer held, "response buffer exhausted" is a value fault
            use crate::mon::capdispatch::run_cap_pre;
            use crate::mon::dev::{Dev, Script, Val};
            use crate::mon::tree::{Built, Spec};
            let built: Built<Dev, Script> = Built::new(&[Spec::leaf(b"LONG", false, 0)], vec![Script { id: 0, omnivore: true, emit: vec![Val::Str(b"0123456789012345678901234567890123456789")], ..Default::default() }]);
            let pre: &[u8] = *rng.pick(&[&b""[..], b"7\n", b"1;2\n", b"\"x\"\n"]);
            let cap = pre.len() + rng.usize(30);
            let mut dev = Dev::new();
            let mut c = scpi::Context::default();
            let msg: &[u8] = if rng.bool() { b"LONG?" } else { b"LONG?;LONG?" };
            let cr = run_cap_pre(cap, pre, built.root(), msg, &mut dev, &mut c).unwrap();
            expect_class(ctx, if pre.is_empty() { "response exceeding an empty fixed-capacity buffer (Node::run)" } else { "response exceeding a fixed-capacity buffer that still holds an earlier response (Node::run)" }, "buffer-exhausted", cr.result.err().map(|e| e.get_code()), false);
            if dev.hook.len() == 1 {
                expect_class(ctx, "the error handed to the hook for an exhausted buffer", "buffer-exhausted", Some(dev.hook[0].get_code()), false);
            }
        }
        {
            // the `AUTO <Boolean>|ONCE` parameter type: a word outside its set is a value fault like a boolean's
            use scpi_contrib::scpi1999::util::Auto;
            let w: &[u8] = *rng.pick(&[&b"MAYBE"[..], b"ONC", b"DEF", b"TRUE", b"AUTO", b"ONCEE", b"O", b"ONN"]);
            expect_class(ctx, "AUTO parameter from a word outside ON|OFF|ONCE", "not-in-allowed-set", Auto::try_from(Token::CharacterProgramData(w)).err().map(|e| e.get_code()), false);
            expect_class(ctx, "AUTO parameter from a string", "wrong-element-type", Auto::try_from(Token::StringProgramData(b"ON")).err().map(|e| e.get_code()), true);
        }
        {
            // channel numbers: well-formed digits whose value the target cannot hold are value faults too
            use scpi::parser::expression::channel_list::{ChannelList, Token as CTok};
            fn first_spec<'a>(text: &'a [u8]) -> Option<scpi::parser::expression::channel_list::ChannelSpec<'a>> {
                match ChannelList::new(text)?.next()? {
                    Ok(CTok::ChannelSpec(s)) => Some(s),
                    _ => None,
                }
            }
            let huge = format!("@{}{}", 1 + rng.usize(9), "9".repeat(19 + rng.usize(10)));
            if let Some(sp) = first_spec(huge.as_bytes()) {
                let r: Result<isize, Error> = sp.try_into();
                expect_class(ctx, "channel number beyond isize converted to isize", "out-of-range", r.err().map(|e| e.get_code()), false);
            } else {
                ctx.count("SELFCHECK-FAILED.channel-spec-not-yielded");
            }
            let neg = format!("@-{}", 1 + rng.usize(500));
            if let Some(sp) = first_spec(neg.as_bytes()) {
                let r: Result<usize, Error> = sp.try_into();
                expect_class(ctx, "negative channel number converted to usize", "out-of-range", r.err().map(|e| e.get_code()), false);
            }
            let neg2 = format!("@{}!-{}", rng.usize(50), 1 + rng.usize(500));
            if let Some(sp) = first_spec(neg2.as_bytes()) {
                let r: Result<(usize, usize), Error> = sp.try_into();
                expect_class(ctx, "negative channel number converted to (usize, usize)", "out-of-range", r.err().map(|e| e.get_code()), false);
            }
        }
        {
            use scpi_contrib::scpi1999::NumericValue;
            let r = NumericValue::Value(11i32).finish_with(10, 0);
            expect_class(ctx, "numeric_value 11 resolved against [0,10]", "out-of-range", r.err().map(|e| e.get_code()), false);
            // values only floats have: not within any bounds, a value fault like any other
            let r = NumericValue::Value(f32::NAN).finish_with(10.0, 0.0);
            expect_class(ctx, "numeric_value NaN resolved against [0,10]", "out-of-range", r.err().map(|e| e.get_code()), false);
            let r = NumericValue::Value(f64::INFINITY).build().max(10.0).min(0.0).finish();
            expect_class(ctx, "numeric_value +inf resolved against [0,10]", "out-of-range", r.err().map(|e| e.get_code()), false);
            let r = NumericValue::Value(f64::NAN).build().max(10.0).finish();
            expect_class(ctx, "numeric_value NaN resolved against (-max,10]", "out-of-range", r.err().map(|e| e.get_code()), false);
        }
        ctx.sample(|| jobj(&[("cases", jstr("mnemonic/chardata/suffix of 13+ chars, unterminated string, non-ascii, truncated/malformed block, misplaced : and , missing separator, wrong element type per target, out-of-range / not-in-set / buffer-exhausted value faults")), ("too_long_word", jbytes(&w))]));
    });
}
