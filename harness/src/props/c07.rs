//! C07 — integer parameters: exactly rounded value or -222; exact non-decimal; MIN/MAX; suffix and
//! non-numeric elements rejected with a command error.
use crate::fw::*;
use crate::gen::num::*;
use crate::refm::decimal::*;
use crate::refm::errclass::is_command_error;
use scpi::error::Error;
use scpi::parser::tokenizer::{Token, Tokenizer};

#[derive(Clone, Copy)]
pub struct IntTy {
    pub name: &'static str,
    pub min: i128,
    pub max: i128,
    pub single: bool,
    pub conv: fn(Token) -> Result<i128, Error>,
}

macro_rules! ity {
    ($t:ty, $single:expr) => {
        IntTy { name: stringify!($t), min: <$t>::MIN as i128, max: <$t>::MAX as i128, single: $single, conv: |t| <$t>::try_from(t).map(|v| v as i128) }
    };
}

pub const INT_TYPES: [IntTy; 10] = [ity!(u8, true), ity!(i8, true), ity!(u16, true), ity!(i16, true), ity!(u32, false), ity!(i32, false), ity!(u64, false), ity!(i64, false), ity!(usize, false), ity!(isize, false)];

/// Allowed outcomes for converting decimal literal `lit` to type `ty` (None = literal not an NRf)
pub struct Allowed {
    pub cands: Vec<Cand>,
    pub in_range: Vec<i128>,
    pub any_out: bool,
    pub tie: bool,
}

pub fn allowed(lit: &[u8], ty: &IntTy) -> Option<Allowed> {
    let d = parse_nrf(lit)?;
    let (mut cands, tie) = d.nearest_ints();
    // resolution of a double (single for 8/16-bit targets): the correctly rounded binary value, parsed by Rust's
    // core library (independent of lexical-core), also defines acceptable results
    let txt = std::str::from_utf8(lit).ok()?;
    let fl: f64 = if ty.single { txt.parse::<f32>().ok()? as f64 } else { txt.parse::<f64>().ok()? };
    for c in nearest_ints_f64(fl) {
        if !cands.contains(&c) {
            cands.push(c);
        }
    }
    let mut in_range = vec![];
    let mut any_out = false;
    for c in &cands {
        match c {
            Cand::Int(v) if *v >= ty.min && *v <= ty.max => in_range.push(*v),
            _ => any_out = true,
        }
    }
    Some(Allowed { cands, in_range, any_out, tie })
}

fn lit_shape(lit: &[u8]) -> String {
    // abstract shape of a literal: sign, has point, has exponent, digit count class
    let s = std::str::from_utf8(lit).unwrap_or("?");
    let sign = if s.starts_with('-') { "neg" } else if s.starts_with('+') { "plus" } else { "nosign" };
    let point = if s.contains('.') { "point" } else { "nopoint" };
    let exp = if s.contains('e') || s.contains('E') { "exp" } else { "noexp" };
    format!("{}-{}-{}", sign, point, exp)
}

pub fn check_decimal(ctx: &mut Ctx, lit: &[u8], ty: &IntTy, via: &str) {
    bump(ctx, 1);
    let al = match allowed(lit, ty) {
        Some(a) => a,
        None => {
            ctx.count("SELFCHECK-FAILED.literal-not-nrf");
            return;
        }
    };
    let r = (ty.conv)(Token::DecimalNumericProgramData(lit));
    if ctx.index % 80 == 0 && lit.len() < 120 && events_enabled() {
        let res = match &r {
            Ok(v) => format!("\"ok\":\"{}\"", v),
            Err(e) => format!("\"err\":{}", e.get_code()),
        };
        log_event(&format!("{{\"k\":\"int\",\"lit\":{},\"ty\":\"{}\",\"min\":\"{}\",\"max\":\"{}\",\"single\":{},{}}}", jstr(std::str::from_utf8(lit).unwrap_or("?")), ty.name, ty.min, ty.max, ty.single, res));
    }
    let class = if al.in_range.is_empty() { "out-of-range" } else if al.any_out { "edge(mixed)" } else if al.tie { "tie" } else { "in-range" };
    ctx.count(&format!("decimal.{}", class));
    ctx.count(&format!("type.{}", ty.name));
    let detail = |r: &Result<i128, Error>| {
        // very long literals are abbreviated in reports (the case index regenerates them)
        let shown: Vec<u8> = if lit.len() > 400 { [&lit[..60], format!("...({} bytes in all)...", lit.len()).as_bytes(), &lit[lit.len() - 60..]].concat() } else { lit.to_vec() };
        jobj(&[("literal", jbytes(&shown)), ("type", jstr(ty.name)), ("via", jstr(via)), ("result", jstr(&format!("{:?}", r.as_ref().map_err(|e| e.get_code())))), ("acceptable_values", jstr(&format!("{:?}", al.in_range))), ("candidates", jstr(&format!("{:?}", al.cands))), ("range_error_acceptable", (al.any_out).to_string())])
    };
    let d = parse_nrf(lit).unwrap();
    let shape = lit_shape(lit);
    match &r {
        Ok(v) => {
            if !al.in_range.contains(v) {
                // classify the wrong value
                let exact = al.cands.iter().filter_map(|c| if let Cand::Int(x) = c { Some(*x) } else { None }).next();
                let kind = match exact {
                    Some(x) if x > ty.max || x < ty.min => {
                        let width = ty.max - ty.min + 1;
                        if (x - *v).rem_euclid(width) == 0 { "wrapped" } else if *v == ty.max || *v == ty.min { "saturated" } else { "out-of-range-accepted" }
                    }
                    Some(x) if (x - *v).abs() == 1 => "off-by-one",
                    Some(x) if x == -*v => "sign-flipped",
                    Some(_) => "different-value",
                    None => "huge-value-accepted",
                };
                ctx.violation(&format!("C07:wrong-value:{}:{}:{}", kind, if ty.single { "8/16-bit" } else { "32/64-bit" }, shape), detail(&r));
            }
        }
        Err(e) if e.get_code() == -222 => {
            if !al.any_out {
                // representable but rejected
                let why = if d.is_zero() {
                    "zero"
                } else if al.in_range.iter().all(|v| *v == 0) {
                    "rounds-to-zero"
                } else if al.in_range.iter().any(|v| *v == ty.max || *v == ty.min) {
                    "rounds-to-type-bound"
                } else {
                    "inner-value"
                };
                ctx.violation(&format!("C07:representable-rejected-with-222:{}:{}:{}", why, if ty.min == 0 { "unsigned" } else { "signed" }, shape), detail(&r));
            }
        }
        Err(e) => {
            ctx.violation(&format!("C07:decimal-literal-error-{}:{}", e.get_code(), shape), detail(&r));
        }
    }
}

pub fn run(cfg: &Cfg, rep: &mut Report) {
    // (1) boundary-directed, every type
    let n = cfg.n(60, 3_200_000, 400_000_000);
    run_cases(cfg, "boundary", n, rep, |rng, ctx| {
        let ty = &INT_TYPES[(ctx.index % 10) as usize];
        let anchor: i128 = match rng.usize(12) {
            0 | 1 => ty.max,
            2 | 3 => ty.min,
            4 => 0,
            5 => ty.max / 2,
            6 => 1i128 << 52,
            7 => 1i128 << 53,
            8 => (1i128 << 63) - 1,
            9 => 1i128 << 64,
            10 => ty.max + 1,
            _ => rng.range(-300, 300) as i128,
        };
        let plain = if rng.chance(1, 14) {
            // magnitudes at the limits of 128-bit accumulators (2^127, 2^128) and the powers of ten next to them, both signs:
            // far outside every target, so only -222 is right
            let k = rng.usize(300) as u128;
            let mag = match rng.usize(6) {
                0 => format!("{}", u128::MAX - k),
                1 => format!("3402823669209384634633746074317682114{:02}", 56 + rng.usize(43)),
                2 => format!("{}", (1u128 << 127) - 1 - k),
                3 => format!("{}", (1u128 << 127) + k),
                4 => format!("1{}", "0".repeat(38 + rng.usize(3))),
                _ => format!("{}{}", 9, "9".repeat(37 + rng.usize(3))),
            };
            let frac = *rng.pick(&["", "", ".0", ".5", ".49", ".9"]);
            format!("{}{}{}", if rng.bool() { "-" } else { "" }, mag, frac)
        } else {
            around(rng, anchor)
        };
        let lit = respell(rng, &plain);
        ctx.nontrivial(mix(hash_str(&lit), ctx.index % 10));
        check_decimal(ctx, lit.as_bytes(), ty, "TryFrom<Token>");
        if ctx.index % 5003 == 0 {
            ctx.sample(|| jobj(&[("type", jstr(ty.name)), ("literal", jstr(&lit))]));
        }
    });
    // (1b) literals of 10^4 ... 1.2*10^6 characters whose value is small: a point shifted across more digits than
    // any internal limit on the exponent or digit position (a handful per run; each costs about a millisecond)
    let n = cfg.n(0, 40, 400);
    if n > 0 && !cfg.tiny {
        run_cases(cfg, "huge-literals", n, rep, |rng, ctx| {
            let ty = &INT_TYPES[(ctx.index % 10) as usize];
            let k = *rng.pick(&[10_000usize, 65_536, 100_000, 999_999, 1_000_000, 1_000_001, 1_000_002, 1_200_000]);
            let v = 1 + rng.usize(99);
            let lit = match rng.usize(3) {
                // 0.000...0v E+(k + digits of v) == v
                0 => format!("0.{}{}E{}", "0".repeat(k), v, k + v.to_string().len()),
                // v000...0 E-k == v
                1 => format!("{}{}E-{}", v, "0".repeat(k), k),
                // v000...0.000...0 (no exponent at all): far out of range for every type
                _ => format!("{}{}.{}", v, "0".repeat(k), "0".repeat(100)),
            };
            ctx.nontrivial(mix(hash_str(&lit), ctx.index % 10));
            ctx.count("huge-literals.checked");
            check_decimal(ctx, lit.as_bytes(), ty, "TryFrom<Token>");
        });
    }
    // (2) zero in every spelling + random literals + exponents
    let n = cfg.n(40, 2_400_000, 400_000_000);
    run_cases(cfg, "random", n, rep, |rng, ctx| {
        let ty = &INT_TYPES[(ctx.index % 10) as usize];
        let lit = match rng.usize(8) {
            0 => rng.pick(ZEROS).to_string(),
            1 | 2 => with_exponent(rng),
            3 => {
                let p = random_plain(rng);
                respell(rng, &p)
            }
            4 => format!("{}", rng.next() as i64),
            5 => format!("{}", rng.next()),
            6 => format!("{}.{}", rng.next() >> rng.usize(64), rng.next() % 1000),
            _ => {
                let p = format!("{}", rng.range(-70000, 70000));
                respell(rng, &p)
            }
        };
        ctx.nontrivial(mix(hash_str(&lit), ctx.index % 10));
        check_decimal(ctx, lit.as_bytes(), ty, "TryFrom<Token>");
    });
    // (3) exhaustive 8-bit: all values -300..=300 x spellings x eighth fractions
    let before = rep.counters.get("stage.exhaustive8.truncated").copied();
    run_cases(cfg, "exhaustive8", 601, rep, |rng, ctx| {
        let v = ctx.index as i64 - 300;
        for ty in [&INT_TYPES[0], &INT_TYPES[1]] {
            for eighth in 0..8 {
                let fr = ["", ".125", ".25", ".375", ".5", ".625", ".75", ".875"][eighth];
                for neg0 in [false, true] {
                    if v != 0 && neg0 {
                        continue;
                    }
                    let plain = if neg0 { format!("-0{}", fr) } else { format!("{}{}", v, fr) };
                    check_decimal(ctx, plain.as_bytes(), ty, "TryFrom<Token>");
                    if !ctx.cfg.tiny {
                        for _ in 0..6 {
                            let l = respell(rng, &plain);
                            check_decimal(ctx, l.as_bytes(), ty, "TryFrom<Token>");
                        }
                    }
                    ctx.nontrivial(mix(hash_str(&plain), ty.min as u64));
                }
            }
        }
    });
    let complete = cfg.only.is_none() && cfg.shard.1 == 1 && rep.counters.get("stage.exhaustive8.truncated").copied() == before;
    rep.exhaustive.insert("u8,i8: every k/8 for k in -2400..=2407 in plain spelling (+6 random re-spellings each)".into(), complete);

    // (4) non-decimal literals, MIN/MAX keywords, rejected element kinds; also through the real lexer + Parameters
    let n = cfg.n(40, 1_000_000, 200_000_000);
    run_cases(cfg, "other-elements", n, rep, |rng, ctx| {
        let ty = &INT_TYPES[(ctx.index % 10) as usize];
        bump(ctx, 1);
        match rng.usize(6) {
            0 | 1 => {
                // non-decimal: exact value or -222
                let (text, val) = crate::gen::msg::gen_nondec(rng);
                let toks: Vec<_> = Tokenizer::new_params(&text).collect();
                let tok = match toks.as_slice() {
                    [Ok(t @ Token::NonDecimalNumericProgramData(_))] => *t,
                    other => {
                        ctx.violation("C07:non-decimal-literal-not-lexed-as-one-element", jobj(&[("literal", jbytes(&text)), ("tokens", jstr(&format!("{:?}", other)))]));
                        return;
                    }
                };
                let r = (ty.conv)(tok);
                ctx.count("nondecimal");
                ctx.nontrivial(mix(val, ctx.index % 10));
                let fits = (val as i128) <= ty.max;
                match (&r, fits) {
                    (Ok(v), true) if *v == val as i128 => {}
                    (Err(e), false) if e.get_code() == -222 => {}
                    _ => ctx.violation(&format!("C07:non-decimal:{}", if fits { "exact-value-expected" } else { "range-error-expected" }), jobj(&[("literal", jbytes(&text)), ("value", val.to_string()), ("type", jstr(ty.name)), ("result", jstr(&format!("{:?}", r.as_ref().map_err(|e| e.get_code()))))])),
                }
            }
            2 if rng.chance(1, 2) => {
                // non-decimal literals at and beyond the 64-bit boundary (with leading zeros): a literal that
                // denotes more than u64::MAX cannot be carried by any integer target, so the lexer/conversion
                // pipeline must end in -222, never in a value
                let (text, exact) = crate::gen::msg::gen_nondec_wide(rng);
                let mut tz = Tokenizer::new_params(&text);
                let first = tz.next();
                ctx.count("nondecimal-wide");
                ctx.nontrivial(mix(hash_bytes(&text), ctx.index % 10));
                let shown = |r: &dyn std::fmt::Debug| jobj(&[("literal", jbytes(&text)), ("exact_value_fits_u64", jstr(&format!("{:?}", exact))), ("type", jstr(ty.name)), ("result", jstr(&format!("{:?}", r)))]);
                match (exact, first) {
                    (Some(val), Some(Ok(tok @ Token::NonDecimalNumericProgramData(_)))) => {
                        let rest = tz.next();
                        if rest.is_some() {
                            ctx.violation("C07:non-decimal-literal-not-lexed-as-one-element", shown(&rest));
                            return;
                        }
                        let r = (ty.conv)(tok);
                        let fits = (val as i128) <= ty.max;
                        match (&r, fits) {
                            (Ok(v), true) if *v == val as i128 => {}
                            (Err(e), false) if e.get_code() == -222 => {}
                            _ => ctx.violation(&format!("C07:non-decimal:{}", if fits { "exact-value-expected" } else { "range-error-expected" }), shown(&r.as_ref().map_err(|e| e.get_code()))),
                        }
                    }
                    (Some(_), other) => ctx.violation("C07:non-decimal-literal-not-lexed-as-one-element", shown(&other)),
                    (None, Some(Err(e))) => {
                        ctx.count("nondecimal-wide.beyond-64-bit");
                        if e.get_code() != -222 {
                            ctx.violation("C07:non-decimal:beyond-64-bit:range-error-expected", shown(&e.get_code()));
                        }
                    }
                    (None, Some(Ok(tok))) => {
                        ctx.count("nondecimal-wide.beyond-64-bit");
                        let r = (ty.conv)(tok);
                        match r {
                            Err(e) if e.get_code() == -222 => {}
                            other => ctx.violation("C07:non-decimal:beyond-64-bit:value-or-wrong-error", shown(&(format!("{:?}", tok), other.map_err(|e| e.get_code())))),
                        }
                    }
                    (None, None) => ctx.violation("C07:non-decimal-literal-not-lexed-as-one-element", shown(&"no token")),
                }
            }
            2 => {
                // MIN / MAX in short/long form any case; near misses are type errors
                let (kw, want): (&[u8], Option<i128>) = *rng.pick(&[(&b"MAX"[..], Some(1)), (b"MAXimum", Some(1)), (b"MIN", Some(-1)), (b"MINimum", Some(-1)), (b"MAXI", None), (b"MINIMU", None), (b"MA", None), (b"MAXIMUMS", None), (b"DEF", None), (b"INF", None)]);
                let s = crate::gen::names::random_case(rng, kw);
                let r = (ty.conv)(Token::CharacterProgramData(&s));
                ctx.count("keyword");
                ctx.nontrivial(mix(hash_bytes(&s), ctx.index % 10));
                let ok = match (want, &r) {
                    (Some(1), Ok(v)) => *v == ty.max,
                    (Some(_), Ok(v)) => *v == ty.min,
                    (None, Err(_)) => true, // rejected; type fault vs value-not-allowed is not fixed by the statement
                    _ => false,
                };
                if !ok {
                    ctx.violation(&format!("C07:keyword:{}", if want.is_some() { "type-bound-expected" } else { "command-error-expected" }), jobj(&[("keyword", jbytes(&s)), ("type", jstr(ty.name)), ("result", jstr(&format!("{:?}", r.as_ref().map_err(|e| e.get_code()))))]));
                }
            }
            3 => {
                // suffix -> command error (the statement names no code; the project uses -138)
                let lit = format!("{}", rng.range(-100, 100));
                let suf = *rng.pick(&[&b"V"[..], b"HZ", b"S", b"DBM", b"PCT"]);
                let r = (ty.conv)(Token::DecimalNumericSuffixProgramData(lit.as_bytes(), suf));
                ctx.count("suffixed");
                match &r {
                    Err(e) if is_command_error(e.get_code()) => {}
                    _ => ctx.violation("C07:suffixed-literal-not-rejected-with-command-error", jobj(&[("literal", jstr(&lit)), ("suffix", jbytes(suf)), ("type", jstr(ty.name)), ("result", jstr(&format!("{:?}", r.as_ref().map_err(|e| e.get_code()))))])),
                }
            }
            4 => {
                // non-numeric element kinds
                let toks = [Token::StringProgramData(b"12"), Token::ArbitraryBlockData(b"12"), Token::ExpressionProgramData(b"12"), Token::StringProgramData(b"MAX"), Token::ArbitraryBlockData(b"")];
                let t = *rng.pick(&toks);
                let r = (ty.conv)(t);
                ctx.count("non-numeric");
                match &r {
                    Err(e) if is_command_error(e.get_code()) => {}
                    _ => ctx.violation("C07:non-numeric-element-not-rejected-with-command-error", jobj(&[("token", jstr(&format!("{:?}", t))), ("type", jstr(ty.name)), ("result", jstr(&format!("{:?}", r.as_ref().map_err(|e| e.get_code()))))])),
                }
            }
            _ => {
                // end to end through the lexer and Parameters::next_data
                let anchor = *rng.pick(&[ty.max, ty.min, 0, 100]);
                let plain = around(rng, anchor);
                let lit = respell(rng, &plain);
                let mut tk = Tokenizer::new_params(lit.as_bytes()).peekable();
                let mut p = scpi::parser::parameters::Parameters::with(&mut tk);
                let tok = p.next_token();
                match tok {
                    Ok(Token::DecimalNumericProgramData(s)) if s == lit.as_bytes() => check_decimal(ctx, s, ty, "lexer+Parameters"),
                    other => ctx.violation("C07:literal-not-lexed-as-decimal", jobj(&[("literal", jstr(&lit)), ("token", jstr(&format!("{:?}", other)))])),
                }
            }
        }
    });
}
