//! C19 — channel lists `(@...)` and numeric lists `(...)` yield exactly the SCPI-denoted entries;
//! listed corruptions give an error after exactly the preceding entries.
use crate::fw::*;
use crate::gen::msg::gen_nrf;
use scpi::parser::expression::channel_list::{ChannelList, ChannelSpec, Token as CT};
use scpi::parser::expression::numeric_list::{NumericList, Token as NT};
use scpi::parser::tokenizer::{Token, Tokenizer};

#[derive(Clone, Debug, PartialEq)]
enum CEntry {
    Spec(Vec<i64>),
    Range(Vec<i64>, Vec<i64>),
    Path(Vec<u8>), // raw content between the quotes
}

#[derive(Clone, Debug, PartialEq)]
enum NEntry {
    One(Vec<u8>),
    Range(Vec<u8>, Vec<u8>),
}

fn gen_int(rng: &mut Rng) -> (i64, Vec<u8>) {
    let v: i64 = match rng.usize(9) {
        // the limits of the number type the iterators yield (isize) and of the narrower widths, and their neighbours
        8 => *rng.pick(&[i64::MIN, i64::MIN + 1, i64::MAX, i64::MAX - 1, i32::MIN as i64, i32::MIN as i64 - 1, i32::MAX as i64, i32::MAX as i64 + 1, u32::MAX as i64, u32::MAX as i64 + 1, -32768, 32767, 65535, 65536, -128, 127, 255, 256, -1]),
        0 => 0,
        1 => rng.range(-9, 9),
        2 => rng.range(-1_000_000, 1_000_000),
        3 => rng.next() as i64 >> rng.usize(40),
        _ => rng.range(0, 200),
    };
    let mut t = Vec::new();
    if v >= 0 && rng.chance(1, 8) {
        t.push(b'+');
    } else if v == 0 && rng.chance(1, 3) {
        // zero written with a minus sign is still zero (for signed and unsigned targets alike)
        t.push(b'-');
    }
    t.extend_from_slice(v.to_string().as_bytes());
    if rng.chance(1, 12) {
        // leading zeros
        let neg = t[0] == b'-' || t[0] == b'+';
        // one as a rule; now and then a fixed-width field padded far beyond the digits any integer type has (the value is
        // the same: 488.2 puts no limit on the length of the mantissa of an <NRf>)
        let k = if rng.chance(1, 5) { *rng.pick(&[8usize, 17, 20, 30, 31, 32, 33, 40, 64, 127, 128, 255, 256, 300, 1000]) } else { 1 };
        for _ in 0..k {
            t.insert(if neg { 1 } else { 0 }, b'0');
        }
    }
    (v, t)
}

fn gen_spec(rng: &mut Rng, dim: usize) -> (Vec<i64>, Vec<u8>) {
    let mut vals = vec![];
    let mut text = vec![];
    for i in 0..dim {
        if i > 0 {
            text.push(b'!');
        }
        let (v, t) = gen_int(rng);
        vals.push(v);
        text.extend_from_slice(&t);
    }
    (vals, text)
}

fn gen_centry(rng: &mut Rng, allow_path: bool) -> (CEntry, Vec<u8>) {
    let dim = 1 + rng.usize(3);
    match rng.usize(if allow_path { 5 } else { 4 }) {
        0 | 1 => {
            let (v, t) = gen_spec(rng, dim);
            (CEntry::Spec(v), t)
        }
        2 | 3 => {
            let (a, mut ta) = gen_spec(rng, dim);
            let (b, tb) = gen_spec(rng, dim);
            ta.push(b':');
            ta.extend_from_slice(&tb);
            (CEntry::Range(a, b), ta)
        }
        _ => {
            let q = if rng.bool() { b'"' } else { b'\'' };
            let body = crate::gen::msg::gen_string_body(rng, q, 12);
            let mut t = vec![q];
            t.extend_from_slice(&body);
            t.push(q);
            (CEntry::Path(body), t)
        }
    }
}

/// what the library yielded for a channel list, normalised
fn lib_channel(expr: &[u8], ctx: &mut Ctx) -> (Vec<CEntry>, Option<String>, Vec<String>) {
    let mut out = vec![];
    let mut issues = vec![];
    let l = match ChannelList::new(expr) {
        Some(l) => l,
        None => return (out, Some("not-a-channel-list".into()), issues),
    };
    let mut n = 0;
    for item in l {
        n += 1;
        if n > expr.len() + 2 {
            issues.push("iterator-does-not-terminate".into());
            break;
        }
        match item {
            Err(e) => return (out, Some(format!("error {}", e.get_code())), issues),
            Ok(CT::ChannelSpec(s)) => match spec_vals(&s, ctx, &mut issues) {
                Ok(v) => out.push(CEntry::Spec(v)),
                Err(e) => return (out, Some(format!("spec-error {}", e)), issues),
            },
            Ok(CT::ChannelRange(a, b)) => match (spec_vals(&a, ctx, &mut issues), spec_vals(&b, ctx, &mut issues)) {
                (Ok(x), Ok(y)) => out.push(CEntry::Range(x, y)),
                (Err(e), _) | (_, Err(e)) => return (out, Some(format!("spec-error {}", e)), issues),
            },
            Ok(CT::PathName(p)) => out.push(CEntry::Path(p.to_vec())),
            Ok(CT::ModuleChannel(..)) => issues.push("module-channel-yielded".into()),
        }
    }
    if issues.is_empty() && expr.len() % 3 == 0 {
        other_walks(|| ChannelList::new(expr).unwrap(), out.len(), "channel-list", &mut issues);
    }
    (out, None, issues)
}


/// Every way the `Iterator` trait offers of walking a well-formed list / spec must give the entries plain `next()`
/// gives (an implementation is free to provide `nth`, `count`, `last`, `size_hint`, ... itself). Only called when
/// plain iteration yielded `n_items` error-free items and then ended.
fn other_walks<F, I>(mk: F, n_items: usize, label: &str, issues: &mut Vec<String>)
where
    F: Fn() -> I,
    I: Iterator,
    I::Item: std::fmt::Debug,
{
    if n_items > 6 {
        return;
    }
    let plain: Vec<String> = mk().take(n_items + 1).map(|x| format!("{:?}", x)).collect();
    if plain.len() != n_items {
        return;
    }
    for k in 0..=n_items {
        for n in 0..=(n_items - k) {
            let mut it = mk();
            for _ in 0..k {
                it.next();
            }
            let (lo, hi) = it.size_hint();
            if lo > n_items - k || hi.map_or(false, |h| h < n_items - k) {
                issues.push(format!("{}:size_hint-excludes-the-remaining-count", label));
            }
            let got = it.nth(n).map(|x| format!("{:?}", x));
            if got.as_ref() != plain.get(k + n) {
                issues.push(format!("{}:nth-after-next-differs-from-plain-iteration", label));
            }
        }
        let mut it = mk();
        for _ in 0..k {
            it.next();
        }
        if it.count() != n_items - k {
            issues.push(format!("{}:count-differs-from-plain-iteration", label));
        }
    }
    if mk().last().map(|x| format!("{:?}", x)).as_ref() != plain.last() {
        issues.push(format!("{}:last-differs-from-plain-iteration", label));
    }
    for step in 2..=3 {
        let got: Vec<String> = mk().step_by(step).take(n_items + 1).map(|x| format!("{:?}", x)).collect();
        let want: Vec<String> = plain.iter().step_by(step).cloned().collect();
        if got != want {
            issues.push(format!("{}:step_by-differs-from-plain-iteration", label));
        }
    }
    let got: Vec<String> = mk().skip(1).take(n_items + 1).map(|x| format!("{:?}", x)).collect();
    if got[..] != plain[1.min(n_items)..] {
        issues.push(format!("{}:skip-differs-from-plain-iteration", label));
    }
}

/// iterate a spec's dimensions (up to the first error) and cross-check dimension() and every scalar/tuple conversion
fn spec_vals(s: &ChannelSpec, ctx: &mut Ctx, issues: &mut Vec<String>) -> Result<Vec<i64>, i16> {
    let mut v = vec![];
    for (i, d) in s.into_iter().enumerate() {
        match d {
            Ok(x) => v.push(x as i64),
            Err(e) => return Err(e.get_code()),
        }
        if i > 64 {
            issues.push("spec-iterator-does-not-terminate".into());
            break;
        }
    }
    ctx.count("spec.iterated");
    other_walks(|| s.into_iter(), v.len(), "spec", issues);
    if s.dimension() != v.len() || s.len() != v.len() {
        issues.push(format!("dimension()-says-{}-but-{}-values-iterate", s.dimension(), v.len()));
    }
    // conversions: each element is the corresponding number of the text
    match v.len() {
        1 => {
            match isize::try_from(*s) {
                Ok(x) if x as i64 == v[0] => {}
                other => issues.push(format!("isize-conversion-gives-{:?}-for-{:?}", other.map_err(|e| e.get_code()), v)),
            }
            match usize::try_from(*s) {
                Ok(x) if v[0] >= 0 && x as i64 == v[0] => {}
                Err(_) if v[0] < 0 => {}
                other => issues.push(format!("usize-conversion-gives-{:?}-for-{:?}", other.map_err(|e| e.get_code()), v)),
            }
            if <(isize, isize)>::try_from(*s).is_ok() || <(isize, isize, isize)>::try_from(*s).is_ok() {
                issues.push("tuple-conversion-accepts-wrong-dimension".into());
            }
        }
        2 => {
            match <(isize, isize)>::try_from(*s) {
                Ok((a, b)) if a as i64 == v[0] && b as i64 == v[1] => {}
                other => issues.push(format!("pair-conversion-gives-{:?}-for-{:?}", other.map_err(|e| e.get_code()), v)),
            }
            match <(usize, usize)>::try_from(*s) {
                Ok((a, b)) if v[0] >= 0 && v[1] >= 0 && a as i64 == v[0] && b as i64 == v[1] => {}
                Err(_) if v[0] < 0 || v[1] < 0 => {}
                other => issues.push(format!("unsigned-pair-conversion-gives-{:?}-for-{:?}", other.map_err(|e| e.get_code()), v)),
            }
            if isize::try_from(*s).is_ok() || <(isize, isize, isize)>::try_from(*s).is_ok() {
                issues.push("scalar/triple-conversion-accepts-wrong-dimension".into());
            }
        }
        3 => {
            match <(isize, isize, isize)>::try_from(*s) {
                Ok((a, b, c)) if a as i64 == v[0] && b as i64 == v[1] && c as i64 == v[2] => {}
                other => issues.push(format!("triple-conversion-gives-{:?}-for-{:?}", other.map_err(|e| e.get_code()), v)),
            }
            match <(usize, usize, usize)>::try_from(*s) {
                Ok((a, b, c)) if v.iter().all(|x| *x >= 0) && a as i64 == v[0] && b as i64 == v[1] && c as i64 == v[2] => {}
                Err(_) if v.iter().any(|x| *x < 0) => {}
                other => issues.push(format!("unsigned-triple-conversion-gives-{:?}-for-{:?}", other.map_err(|e| e.get_code()), v)),
            }
            if isize::try_from(*s).is_ok() || <(isize, isize)>::try_from(*s).is_ok() {
                issues.push("scalar/pair-conversion-accepts-wrong-dimension".into());
            }
        }
        _ => {}
    }
    Ok(v)
}

fn lib_numeric(l: NumericList, n_guard: usize) -> (Vec<NEntry>, Option<String>, Vec<String>) {
    let again = l.clone();
    let mut out = vec![];
    let mut issues = vec![];
    let num = |t: &Token| -> Option<Vec<u8>> {
        if let Token::DecimalNumericProgramData(s) = t {
            Some(s.to_vec())
        } else {
            None
        }
    };
    let mut n = 0;
    for item in l {
        n += 1;
        if n > n_guard + 2 {
            issues.push("iterator-does-not-terminate".into());
            break;
        }
        match item {
            Err(e) => return (out, Some(format!("error {}", e.get_code())), issues),
            Ok(NT::Numeric(a)) => match num(&a) {
                Some(x) => out.push(NEntry::One(x)),
                None => issues.push("numeric-entry-is-not-a-decimal-token".into()),
            },
            Ok(NT::NumericRange(a, b)) => match (num(&a), num(&b)) {
                (Some(x), Some(y)) => out.push(NEntry::Range(x, y)),
                _ => issues.push("range-entry-is-not-decimal-tokens".into()),
            },
        }
    }
    if issues.is_empty() && n_guard % 3 == 0 {
        other_walks(|| again.clone(), out.len(), "numeric-list", &mut issues);
    }
    (out, None, issues)
}

fn sig_issue(s: &str) -> String {
    // keep the signature about the kind of issue, not the values
    let s = s.split("-gives-").next().unwrap_or(s);
    let mut o: String = s.chars().map(|c| if c.is_ascii_digit() { '#' } else { c }).collect();
    while o.contains("##") {
        o = o.replace("##", "#");
    }
    o.chars().take(70).collect()
}

pub fn run(cfg: &Cfg, rep: &mut Report) {
    // ---------------- channel lists
    run_cases(cfg, "channel", cfg.n(640, 4_800_000, 288_000_000), rep, |rng, ctx| {
        bump(ctx, 1);
        let allow_path = rng.bool();
        let mx = if rng.chance(1, 100) && !ctx.cfg.tiny { 400 } else if rng.chance(1, 10) { 21 } else { 5 };
        let n = rng.usize(mx);
        let mut entries = vec![];
        let mut texts: Vec<Vec<u8>> = vec![];
        for _ in 0..n {
            let (e, t) = gen_centry(rng, allow_path);
            entries.push(e);
            texts.push(t);
        }
        // corruption (or none)
        let corruption = if n == 0 { 0 } else { rng.usize(10) };
        let at = if n == 0 { 0 } else { rng.usize(n) };
        let mut expr = b"@".to_vec();
        let mut expect_entries = entries.clone();
        let mut expect_err = false;
        let mut after_entry = false;
        let mut cname = "none";
        for (i, t) in texts.iter().enumerate() {
            if i > 0 {
                expr.push(b',');
            }
            if i == at {
                match corruption {
                    1 => {
                        // leading (i == 0) or doubled comma
                        expr.push(b',');
                        expect_entries.truncate(i);
                        expect_err = true;
                        cname = if i == 0 { "leading-comma" } else { "doubled-comma" };
                    }
                    2 => {
                        // foreign character in entry position
                        expr.push(*rng.pick(b"xX@#$%&*()=?/\\<>~ \t"));
                        expect_entries.truncate(i);
                        expect_err = true;
                        cname = "foreign-character";
                    }
                    _ => {}
                }
            }
            if i == at && corruption == 3 {
                // range whose ends differ in dimension
                let d1 = 1 + rng.usize(3);
                let mut d2 = 1 + rng.usize(3);
                while d2 == d1 {
                    d2 = 1 + rng.usize(3);
                }
                let (_, ta) = gen_spec(rng, d1);
                let (_, tb) = gen_spec(rng, d2);
                expr.extend_from_slice(&ta);
                expr.push(b':');
                expr.extend_from_slice(&tb);
                expect_entries.truncate(i);
                expect_err = true;
                cname = "range-dimension-mismatch";
                if !expect_err_done(&mut expr) {}
                continue;
            }
            if i == at && corruption == 4 {
                // third range end
                let d = 1 + rng.usize(3);
                let (a, ta) = gen_spec(rng, d);
                let (b, tb) = gen_spec(rng, d);
                let (_, tc) = gen_spec(rng, d);
                expr.extend_from_slice(&ta);
                expr.push(b':');
                expr.extend_from_slice(&tb);
                expr.push(b':');
                expr.extend_from_slice(&tc);
                // the well-formed range a:b precedes the offending third end
                expect_entries.truncate(i);
                expect_entries.push(CEntry::Range(a, b));
                expect_err = true;
                cname = "third-range-end";
                continue;
            }
            if expect_err {
                // nothing after the corruption matters; still append it to have realistic tails
            }
            if i == at && corruption == 6 && !expect_err && t.len() > 2 && (t[0] == b'\'' || t[0] == b'"') {
                // a byte beyond ASCII inside a quoted path name (path names hold ASCII content): foreign to the list syntax,
                // iteration ends in an error at this entry after the entries before it
                let mut bad = t.clone();
                let k = 1 + rng.usize(bad.len() - 2);
                bad[k] = 0x80 + rng.usize(128) as u8;
                expr.extend_from_slice(&bad);
                expect_entries.truncate(i);
                expect_err = true;
                cname = "non-ascii-inside-path-name";
                continue;
            }
            expr.extend_from_slice(t);
            if i == at && corruption == 5 && !expect_err {
                // foreign character directly behind an entry (before the separator or the end of the list): the
                // statement leaves open whether the entry it touches is still yielded, so both are accepted -
                // but iteration must end in an error there and yield nothing that follows
                expr.push(*rng.pick(b"xX@#$%&*()=?/\\<>~ \t"));
                expect_entries.truncate(i + 1);
                expect_err = true;
                after_entry = true;
                cname = "foreign-character-after-entry";
            }
        }
        ctx.count(&format!("channel.corruption.{}", cname));
        ctx.add("channel.entries-generated", n as u64);
        ctx.nontrivial(hash_bytes(&expr));
        let (got, err, issues) = lib_channel(&expr, ctx);
        let detail = |got: &Vec<CEntry>, err: &Option<String>| jobj(&[("expression", jbytes(&expr)), ("corruption", jstr(cname)), ("expected_entries", jstr(&format!("{:?}", expect_entries))), ("library_entries", jstr(&format!("{:?}", got))), ("library_end", jstr(&format!("{:?}", err)))]);
        for is in &issues {
            ctx.violation(&format!("C19:channel:{}", sig_issue(is)), detail(&got, &err));
        }
        if expect_err {
            if got != expect_entries && !(after_entry && got[..] == expect_entries[..expect_entries.len() - 1]) {
                ctx.violation(&format!("C19:channel:{}:entries-before-the-error-differ", cname), detail(&got, &err));
            } else if err.is_none() {
                ctx.violation(&format!("C19:channel:{}:no-error", cname), detail(&got, &err));
            }
        } else if err.is_some() {
            ctx.violation("C19:channel:well-formed-list-gives-error", detail(&got, &err));
        } else if got != expect_entries {
            let k = got.iter().zip(expect_entries.iter()).position(|(a, b)| a != b).unwrap_or(got.len().min(expect_entries.len()));
            let kind = match expect_entries.get(k) {
                Some(CEntry::Spec(_)) => "spec",
                Some(CEntry::Range(..)) => "range",
                Some(CEntry::Path(_)) => "path",
                None => "extra-entry",
            };
            ctx.violation(&format!("C19:channel:entries-differ:{}", kind), detail(&got, &err));
        }
        if ctx.index % 5003 == 0 {
            ctx.sample(|| jobj(&[("channel_list", jbytes(&expr)), ("corruption", jstr(cname))]));
        }
        // the same list through the lexer and Parameters (no path names: quotes are not allowed inside <expression>)
        if !allow_path && ctx.index % 3 == 0 && !expr.iter().any(|c| b"()\"';#".contains(c)) {
            let mut msg = b"(".to_vec();
            msg.extend_from_slice(&expr);
            msg.push(b')');
            let mut tk = Tokenizer::new_params(&msg).peekable();
            let mut p = scpi::parser::parameters::Parameters::with(&mut tk);
            match p.next_data::<ChannelList>() {
                Ok(l) => {
                    let direct: Vec<_> = ChannelList::new(&expr).map(|x| x.take(64).map(|r| r.is_ok()).collect()).unwrap_or_else(Vec::new);
                    let via: Vec<bool> = l.take(64).map(|r| r.is_ok()).collect();
                    if direct != via {
                        ctx.violation("C19:channel:differs-through-Parameters", detail(&got, &err));
                    }
                    ctx.count("channel.via-parameters");
                }
                Err(e) => ctx.violation(&format!("C19:channel:next_data-fails:{}", e.get_code()), detail(&got, &err)),
            }
        }
    });

    // ---------------- numeric lists
    run_cases(cfg, "numeric", cfg.n(640, 4_800_000, 384_000_000), rep, |rng, ctx| {
        bump(ctx, 1);
        let mx = if rng.chance(1, 100) && !ctx.cfg.tiny { 400 } else if rng.chance(1, 10) { 21 } else { 5 };
        let n = rng.usize(mx);
        let mut entries = vec![];
        let mut texts: Vec<Vec<u8>> = vec![];
        for _ in 0..n {
            let a = gen_nrf(rng);
            if rng.chance(1, 3) {
                let b = gen_nrf(rng);
                let mut t = a.clone();
                t.push(b':');
                t.extend_from_slice(&b);
                entries.push(NEntry::Range(a, b));
                texts.push(t);
            } else {
                entries.push(NEntry::One(a.clone()));
                texts.push(a);
            }
        }
        let corruption = if n == 0 { 0 } else { rng.usize(10) };
        let at = if n == 0 { 0 } else { rng.usize(n) };
        let mut expr: Vec<u8> = vec![];
        let mut expect_entries = entries.clone();
        let mut expect_err = false;
        let mut after_entry = false;
        let mut cname = "none";
        for (i, t) in texts.iter().enumerate() {
            let mut sep = i > 0;
            if i == at {
                match corruption {
                    1 => {
                        expr.push(b',');
                        expect_entries.truncate(i);
                        expect_err = true;
                        cname = if i == 0 { "leading-comma" } else { "doubled-comma" };
                    }
                    2 => {
                        if i > 0 {
                            expr.push(b',');
                            sep = false;
                        }
                        expr.push(*rng.pick(b"xX@#$%&*()=?/\\<>~ \t!"));
                        expect_entries.truncate(i);
                        expect_err = true;
                        cname = "foreign-character";
                    }
                    3 if i > 0 && (t[0] == b'-' || t[0] == b'+') => {
                        // missing separator: the entry starts with a sign so that the text stays two numbers
                        sep = false;
                        expect_entries.truncate(i);
                        expect_err = true;
                        cname = "missing-separator";
                    }
                    4 => {
                        // third range end
                        if sep {
                            expr.push(b',');
                            sep = false;
                        }
                        let a = gen_nrf(rng);
                        let b = gen_nrf(rng);
                        expr.extend_from_slice(&a);
                        expr.push(b':');
                        expr.extend_from_slice(&b);
                        expr.push(b':');
                        expect_entries.truncate(i);
                        expect_entries.push(NEntry::Range(a, b));
                        expect_err = true;
                        cname = "third-range-end";
                    }
                    _ => {}
                }
            }
            if sep {
                expr.push(b',');
            }
            expr.extend_from_slice(t);
            if i == at && corruption == 5 && !expect_err {
                // foreign character directly behind an entry: the entry it touches may or may not be yielded, the
                // iteration must end in an error there
                expr.push(*rng.pick(b"xX@#$%&*()=?/\\<>~ \t!"));
                expect_entries.truncate(i + 1);
                expect_err = true;
                after_entry = true;
                cname = "foreign-character-after-entry";
            }
        }
        let first_kind = texts.first().map(|t| match t[0] { b'.' => "point", b'+' => "plus", b'-' => "minus", _ => "digit" }).unwrap_or("empty");
        ctx.count(&format!("numeric.corruption.{}", cname));
        ctx.count(&format!("numeric.first-entry-starts-with.{}", first_kind));
        ctx.add("numeric.entries-generated", n as u64);
        ctx.nontrivial(hash_bytes(&expr));
        let (got, err, issues) = lib_numeric(NumericList::new(&expr), expr.len());
        let detail = |got: &Vec<NEntry>, err: &Option<String>| {
            let sh = |v: &Vec<NEntry>| v.iter().map(|e| match e { NEntry::One(a) => show(a), NEntry::Range(a, b) => format!("{}:{}", show(a), show(b)) }).collect::<Vec<_>>().join(" | ");
            jobj(&[("expression", jbytes(&expr)), ("corruption", jstr(cname)), ("expected_entries", jstr(&sh(&expect_entries))), ("library_entries", jstr(&sh(got))), ("library_end", jstr(&format!("{:?}", err)))])
        };
        for is in &issues {
            ctx.violation(&format!("C19:numeric:{}", sig_issue(is)), detail(&got, &err));
        }
        if expect_err {
            if got != expect_entries && !(after_entry && got[..] == expect_entries[..expect_entries.len() - 1]) {
                ctx.violation(&format!("C19:numeric:{}:entries-before-the-error-differ", cname), detail(&got, &err));
            } else if err.is_none() {
                ctx.violation(&format!("C19:numeric:{}:no-error", cname), detail(&got, &err));
            }
        } else if err.is_some() {
            let k = got.len();
            let starts = texts.get(k).map(|t| match t[0] { b'.' => "point", b'+' => "plus", b'-' => "minus", _ => "digit" }).unwrap_or("?");
            ctx.violation(&format!("C19:numeric:well-formed-list-gives-error:entry-{}-starts-with-{}", if k == 0 { "first" } else { "later" }, starts), detail(&got, &err));
        } else if got != expect_entries {
            ctx.violation("C19:numeric:entries-differ", detail(&got, &err));
        }
        if ctx.index % 5003 == 0 {
            ctx.sample(|| jobj(&[("numeric_list", jbytes(&expr)), ("corruption", jstr(cname))]));
        }
        if ctx.index % 3 == 0 && !expr.is_empty() && !expr.iter().any(|c| b"()\"';#".contains(c)) {
            let mut msg = b"(".to_vec();
            msg.extend_from_slice(&expr);
            msg.push(b')');
            let mut tk = Tokenizer::new_params(&msg).peekable();
            let mut p = scpi::parser::parameters::Parameters::with(&mut tk);
            match p.next_data::<NumericList>() {
                Ok(l) => {
                    let (g2, e2, _) = lib_numeric(l, expr.len());
                    if g2 != got || e2 != err {
                        ctx.violation("C19:numeric:differs-through-Parameters", detail(&got, &err));
                    }
                    ctx.count("numeric.via-parameters");
                }
                Err(e) => ctx.violation(&format!("C19:numeric:next_data-fails:{}", e.get_code()), detail(&got, &err)),
            }
        }
    });
}

fn expect_err_done(_e: &mut Vec<u8>) -> bool {
    true
}
