//! C12 — bounded FIFO error queue with -350 overflow marker; lock-step against RefQueue.
use crate::fw::*;
use crate::refm::queue::*;
use arrayvec::ArrayVec;
use scpi::error::{Error, ErrorCode, ErrorQueue};

fn leak(v: Vec<u8>) -> &'static [u8] {
    Box::leak(v.into_boxed_slice())
}

/// pool of static messages so that long runs do not leak unboundedly
fn msg_pool() -> &'static Vec<&'static [u8]> {
    use std::sync::OnceLock;
    static P: OnceLock<Vec<&'static [u8]>> = OnceLock::new();
    P.get_or_init(|| (0..512).map(|i| leak(format!("m{}", i).into_bytes())).collect())
}

/// every standard error the library defines (found by sweeping the lookup over all 16-bit numbers)
fn all_standard() -> &'static Vec<ErrorCode> {
    use std::sync::OnceLock;
    static P: OnceLock<Vec<ErrorCode>> = OnceLock::new();
    P.get_or_init(|| (i16::MIN..=i16::MAX).filter_map(ErrorCode::get_error).collect())
}

/// a 'static copy of a message (interned: one leak per distinct text)
fn leak_once(m: &[u8]) -> &'static [u8] {
    use std::collections::HashMap;
    use std::sync::{Mutex, OnceLock};
    static P: OnceLock<Mutex<HashMap<Vec<u8>, &'static [u8]>>> = OnceLock::new();
    let mut g = P.get_or_init(|| Mutex::new(HashMap::new())).lock().unwrap();
    if let Some(x) = g.get(m) {
        return x;
    }
    let l = leak(m.to_vec());
    g.insert(m.to_vec(), l);
    l
}

fn item_of(e: &Error) -> QItem {
    QItem { code: e.get_code(), msg: e.get_message().to_vec(), ext: e.get_extended().map(|x| x.to_vec()) }
}

fn jitem(i: &Option<QItem>) -> String {
    match i {
        None => "null".into(),
        Some(i) => jobj(&[("code", i.code.to_string()), ("msg", jbytes(&i.msg)), ("ext", i.ext.as_ref().map(|e| jbytes(e)).unwrap_or("null".into()))]),
    }
}

#[derive(Clone, Copy, PartialEq)]
enum Mode {
    Mixed,
    HoverFull,
    HoverEmpty,
    Long,
}

fn drive<Q: ErrorQueue>(rng: &mut Rng, ctx: &mut Ctx, q: &mut Q, cap: Option<usize>, kind: &str, mode: Mode) {
    let mut r = RefQueue::new(cap);
    let pool = msg_pool();
    let nops = match mode {
        Mode::Long => if ctx.cfg.tiny { 200 } else { 10_000 },
        _ => 4 + rng.usize(if ctx.cfg.tiny { 20 } else { 40 }),
    };
    let mut uid: usize = 0;
    let mut last_pushed: Option<Error> = None;
    let mut trace: Vec<String> = Vec::new();
    let mut saw_overflow = false;
    let mut saw_empty_pop = false;
    let mut pushes = 0u64;
    let mut h = hash_str(kind);
    for step in 0..nops {
        let full = cap.map_or(false, |c| r.len() >= c);
        let w = match mode {
            Mode::HoverFull => if full { rng.usize(10) } else { rng.usize(4) },
            Mode::HoverEmpty => if r.len() == 0 { rng.usize(10) } else { 5 + rng.usize(5) },
            _ => rng.usize(10),
        };
        // op selection: 0..=4 push, 5..=7 pop, 8 len/is_empty, 9 clear (rare)
        let op = match w {
            0..=4 => 0,
            5..=7 => 1,
            8 => 2,
            // a growable queue in a long history builds up a backlog of hundreds to thousands of unread entries
            // (almost never cleared): it has no capacity, so nothing may be dropped or marked at any length
            _ if mode == Mode::Long && cap.is_none() => if rng.chance(1, 400) { 3 } else { 0 },
            _ => if rng.chance(1, 4) { 3 } else { 2 },
        };
        if r.len() >= 256 {
            ctx.count("steps.with-256-or-more-unread");
        }
        h = mix(h, op as u64 * 4 + full as u64 * 2 + (r.len() == 0) as u64);
        match op {
            0 => {
                uid += 1;
                pushes += 1;
                // unique identity: custom code + message index (+ extended text)
                let code = match rng.usize(4) {
                    0 => (uid % 30000) as i16 + 1,
                    1 => -300 - (uid % 90) as i16,
                    2 => -((uid % 32000) as i16) - 900,
                    _ => (uid % 32000) as i16 + 100,
                };
                let m = pool[uid % pool.len()];
                let mut plain_standard = false;
                let mut e = if rng.chance(1, 8) {
                    // a standard error (not unique by itself; usually made unique through the extended text below):
                    // any of the library's standard codes, as a device reports them
                    let std = all_standard();
                    plain_standard = rng.chance(1, 3);
                    Error::new(std[rng.usize(std.len())])
                } else {
                    Error::custom(code, m)
                };
                if !plain_standard && (rng.chance(1, 3) || !matches!(item_of(&e).msg.first(), Some(b'm'))) {
                    e = e.extended(pool[(uid * 7 + 3) % pool.len()]);
                }
                // device-dependent info is arbitrary bytes as far as the queue is concerned (a degree sign, a localized text)
                if rng.chance(1, 15) {
                    e = e.extended(*rng.pick(&[&b"limit is 85 \xb0C"[..], b"\xff", b"\xc3\xa9chec", b"a\x80b", b""]));
                    ctx.count("pushes.extended-text-not-ascii-or-empty");
                }
                // long device-dependent info (a file name, a dump, a forwarded message): lengths around the 255-character
                // limit SCPI-99 21.8.1 mentions for the description, around 2^8..2^16, and custom descriptions that long;
                // the queue stores and returns whatever it was given
                if rng.chance(1, 15) {
                    let n = match rng.usize(8) {
                        0 => 180 + rng.usize(100),
                        1 => 250 + rng.usize(12),
                        2 => 500 + rng.usize(30),
                        3 => 1020 + rng.usize(10),
                        4 if !ctx.cfg.tiny => 65_530 + rng.usize(12),
                        _ => 200 + rng.usize(400),
                    };
                    // a small pool of distinct long texts per length (interned, so nothing leaks per case)
                    let fill = b"abcdefghijklmnopqrstuvwxyz0123456789 /.-"[(uid + n) % 40];
                    let mut t = vec![fill; n];
                    t[n - 1] = b'#';
                    t[0] = b'[';
                    if rng.chance(1, 4) {
                        e = Error::custom(code, leak_once(&t));
                        ctx.count("pushes.long-custom-description");
                    } else {
                        e = e.extended(leak_once(&t));
                        ctx.count("pushes.long-extended-text(180..65541 bytes)");
                    }
                }
                // device-dependent info that happens to repeat the description (a wrapped inner error does that)
                if rng.chance(1, 12) {
                    let own: &'static [u8] = leak_once(e.get_message());
                    e = e.extended(own);
                    ctx.count("pushes.extended-text-equal-to-the-description");
                }
                // most errors are unique so that order is unambiguous; now and then the very same error is reported
                // again (a repeated fault), which a FIFO keeps as a second entry and which overflows like any other
                if let Some(prev) = last_pushed {
                    if rng.chance(1, 6) {
                        e = prev;
                        ctx.count("pushes.repeat-of-the-previous-error");
                    }
                }
                last_pushed = Some(e);
                if full {
                    saw_overflow = true;
                }
                trace.push(format!("push({},{})", e.get_code(), show(e.get_extended().unwrap_or(e.get_message()))));
                q.push_back_error(e);
                r.push(item_of(&e));
            }
            1 => {
                let got = q.pop_front_error().map(|e| item_of(&e));
                let exp = r.pop();
                if exp.is_none() {
                    saw_empty_pop = true;
                }
                trace.push(format!("pop->{}", got.as_ref().map(|g| g.code.to_string()).unwrap_or("None".into())));
                if got != exp {
                    let sig = match (&got, &exp) {
                        (Some(g), Some(e)) if e.code == -350 && g.code != -350 => "C12:overflow-marker-missing-or-misplaced",
                        (Some(g), Some(e)) if g.code == -350 && e.code != -350 => "C12:retained-entry-overwritten-by-overflow-marker",
                        (Some(_), Some(_)) => "C12:order-or-content-differs",
                        (None, Some(_)) => "C12:entry-lost",
                        (Some(_), None) => "C12:entry-from-nowhere",
                        _ => "C12:?",
                    };
                    ctx.violation(sig, jobj(&[("queue", jstr(kind)), ("step", step.to_string()), ("got", jitem(&got)), ("expected", jitem(&exp)), ("history", jstr(&trace.join(" ")))]));
                    return;
                }
            }
            2 => {
                trace.push("len".into());
            }
            _ => {
                trace.push("clear".into());
                q.clear_errors();
                r.clear();
            }
        }
        // after every op: length and emptiness agree with the model, capacity is respected
        let n = q.num_errors();
        if n != r.len() || q.is_empty() != (r.len() == 0) {
            ctx.violation("C12:length-or-is_empty-wrong", jobj(&[("queue", jstr(kind)), ("step", step.to_string()), ("num_errors", n.to_string()), ("is_empty", q.is_empty().to_string()), ("expected_len", r.len().to_string()), ("history", jstr(&trace.join(" ")))]));
            return;
        }
        if let Some(c) = cap {
            if n > c {
                ctx.violation("C12:capacity-exceeded", jobj(&[("queue", jstr(kind)), ("len", n.to_string())]));
                return;
            }
        }
    }
    // drain and compare the rest
    loop {
        let got = q.pop_front_error().map(|e| item_of(&e));
        let exp = r.pop();
        if got != exp {
            let sig = match (&got, &exp) {
                (Some(g), Some(e)) if e.code == -350 && g.code != -350 => "C12:overflow-marker-missing-or-misplaced",
                (Some(g), Some(e)) if g.code == -350 && e.code != -350 => "C12:retained-entry-overwritten-by-overflow-marker",
                _ => "C12:drain-differs",
            };
            ctx.violation(sig, jobj(&[("queue", jstr(kind)), ("got", jitem(&got)), ("expected", jitem(&exp)), ("history", jstr(&trace.join(" ")))]));
            return;
        }
        if got.is_none() {
            break;
        }
    }
    ctx.add("ops", nops as u64);
    ctx.add("pushes", pushes);
    if saw_overflow {
        ctx.count("histories.with-overflow");
    }
    if saw_empty_pop {
        ctx.count("histories.with-pop-on-empty");
    }
    ctx.count(&format!("queue.{}", kind));
    if saw_overflow || saw_empty_pop {
        ctx.nontrivial(h);
    }
    let t = trace;
    ctx.sample(|| jobj(&[("queue", jstr(kind)), ("history", jstr(&t.iter().take(30).cloned().collect::<Vec<_>>().join(" ")))]));
}

macro_rules! arr {
    ($n:literal, $rng:expr, $ctx:expr, $mode:expr) => {{
        let mut q: ArrayVec<Error, $n> = ArrayVec::new();
        drive($rng, $ctx, &mut q, Some($n), concat!("ArrayVec<Error,", $n, ">"), $mode);
    }};
}

pub fn run(cfg: &Cfg, rep: &mut Report) {
    let n = cfg.n(1_200, 4_800_000, 288_000_000);
    run_cases(cfg, "histories", n, rep, |rng, ctx| {
        let mode = match rng.usize(10) {
            0..=3 => Mode::Mixed,
            4..=7 => Mode::HoverFull,
            _ => Mode::HoverEmpty,
        };
        match rng.usize(12) {
            0 => arr!(1, rng, ctx, mode),
            1 => arr!(2, rng, ctx, mode),
            2 => arr!(3, rng, ctx, mode),
            3 => arr!(4, rng, ctx, mode),
            4 => arr!(5, rng, ctx, mode),
            5 => arr!(6, rng, ctx, mode),
            6 => arr!(7, rng, ctx, mode),
            7 => arr!(8, rng, ctx, mode),
            8 => arr!(16, rng, ctx, mode),
            9 => arr!(64, rng, ctx, mode),
            _ => {
                let mut q: Vec<Error> = Vec::new();
                drive(rng, ctx, &mut q, None, "Vec<Error>", mode);
            }
        }
    });
    let n = cfg.n(2, 1_600, 96_000);
    run_cases(cfg, "long", n, rep, |rng, ctx| {
        match rng.usize(5) {
            0 => arr!(1, rng, ctx, Mode::Long),
            1 => arr!(3, rng, ctx, Mode::Long),
            2 => arr!(16, rng, ctx, Mode::Long),
            3 => arr!(64, rng, ctx, Mode::Long),
            _ => {
                let mut q: Vec<Error> = Vec::new();
                drive(rng, ctx, &mut q, None, "Vec<Error>", Mode::Long);
            }
        }
    });
}
