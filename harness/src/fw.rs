//! Framework: PRNG, case scheduling over worker threads, panic monitor, watchdog, report/JSON.
//!
//! Every case is identified by (stage, index); its PRNG stream depends only on
//! (VERIF_SEED, property, stage, index) so a case can be replayed alone and results do not depend
//! on the number of threads or on scheduling.

use std::collections::{BTreeMap, HashSet};
use std::fmt::Write as _;
use std::panic::{self, AssertUnwindSafe};
use std::sync::atomic::{AtomicBool, AtomicU64, Ordering};
use std::sync::{Arc, Mutex};
use std::time::{Duration, Instant};

// ------------------------------------------------------------------------------------------------
// PRNG: splitmix64 seeding + xoshiro256**

#[derive(Clone)]
pub struct Rng {
    s: [u64; 4],
}

pub fn splitmix(x: &mut u64) -> u64 {
    *x = x.wrapping_add(0x9E3779B97F4A7C15);
    let mut z = *x;
    z = (z ^ (z >> 30)).wrapping_mul(0xBF58476D1CE4E5B9);
    z = (z ^ (z >> 27)).wrapping_mul(0x94D049BB133111EB);
    z ^ (z >> 31)
}

pub fn hash_str(s: &str) -> u64 {
    let mut h: u64 = 0xcbf29ce484222325;
    for b in s.as_bytes() {
        h ^= *b as u64;
        h = h.wrapping_mul(0x100000001b3);
    }
    h
}

pub fn hash_bytes(s: &[u8]) -> u64 {
    let mut h: u64 = 0xcbf29ce484222325;
    for b in s {
        h ^= *b as u64;
        h = h.wrapping_mul(0x100000001b3);
    }
    h
}

pub fn mix(a: u64, b: u64) -> u64 {
    let mut x = a ^ b.rotate_left(29).wrapping_mul(0x9E3779B97F4A7C15);
    splitmix(&mut x)
}

impl Rng {
    pub fn new(seed: u64) -> Self {
        let mut x = seed;
        let s = [
            splitmix(&mut x),
            splitmix(&mut x),
            splitmix(&mut x),
            splitmix(&mut x),
        ];
        Rng { s }
    }
    pub fn next(&mut self) -> u64 {
        let r = self.s[1].wrapping_mul(5).rotate_left(7).wrapping_mul(9);
        let t = self.s[1] << 17;
        self.s[2] ^= self.s[0];
        self.s[3] ^= self.s[1];
        self.s[1] ^= self.s[2];
        self.s[0] ^= self.s[3];
        self.s[2] ^= t;
        self.s[3] = self.s[3].rotate_left(45);
        r
    }
    /// uniform in 0..n (n > 0)
    pub fn below(&mut self, n: u64) -> u64 {
        debug_assert!(n > 0);
        ((self.next() as u128 * n as u128) >> 64) as u64
    }
    pub fn range(&mut self, lo: i64, hi_incl: i64) -> i64 {
        lo + self.below((hi_incl - lo + 1) as u64) as i64
    }
    pub fn usize(&mut self, n: usize) -> usize {
        self.below(n as u64) as usize
    }
    pub fn chance(&mut self, num: u64, den: u64) -> bool {
        self.below(den) < num
    }
    pub fn bool(&mut self) -> bool {
        self.next() & 1 == 1
    }
    pub fn pick<'a, T>(&mut self, xs: &'a [T]) -> &'a T {
        &xs[self.usize(xs.len())]
    }
    pub fn f64_unit(&mut self) -> f64 {
        (self.next() >> 11) as f64 / (1u64 << 53) as f64
    }
}

// ------------------------------------------------------------------------------------------------
// Config

#[derive(Clone, Copy, PartialEq, Eq, Debug)]
pub enum Tier {
    Quick,
    Thorough,
}

#[derive(Clone, Debug)]
pub struct Cfg {
    pub prop: String,
    pub tier: Tier,
    pub seed: u64,
    pub threads: usize,
    pub profile: &'static str,
    /// replay: only this (stage, index)
    pub only: Option<(String, u64)>,
    /// running under Miri (or another very slow interpreter): tiny workloads, no watchdog
    pub tiny: bool,
    /// wall-clock budget of the whole process in seconds (new cases are not started after it)
    pub budget_s: f64,
    /// multiplier on every randomised stage's case count (slow flavours run a fraction of the tier's workload)
    pub scale: f64,
    pub started: Instant,
    /// shard i of n (used by miri/asan process sharding): only indices idx % n == i
    pub shard: (u64, u64),
    /// stage-name filter (comma separated prefixes), empty = all
    pub stages: Vec<String>,
    pub hang_s: u64,
    pub verbose: bool,
}

impl Cfg {
    pub fn quick(&self) -> bool {
        self.tier == Tier::Quick
    }
    /// number of cases: (tiny, quick, thorough)
    pub fn n(&self, tiny: u64, quick: u64, thorough: u64) -> u64 {
        ((self.n_unscaled(tiny, quick, thorough) as f64 * self.scale) as u64).max(1)
    }
    fn n_unscaled(&self, tiny: u64, quick: u64, thorough: u64) -> u64 {
        if self.tiny {
            if self.quick() {
                tiny
            } else {
                tiny * 8
            }
        } else if self.quick() {
            quick
        } else {
            thorough
        }
    }
    pub fn stage_enabled(&self, stage: &str) -> bool {
        if let Some((s, _)) = &self.only {
            return s == stage;
        }
        self.stages.is_empty() || self.stages.iter().any(|p| stage.starts_with(p.as_str()))
    }
}

// ------------------------------------------------------------------------------------------------
// Report

#[derive(Clone, Debug)]
pub struct Violation {
    pub signature: String,
    pub stage: String,
    pub index: u64,
    pub detail: String,
}

const DISTINCT_CAP: usize = 6_000_000;

#[derive(Default)]
pub struct Report {
    pub evaluations: u64,
    pub counters: BTreeMap<String, u64>,
    pub distinct: HashSet<u64>,
    pub distinct_saturated: bool,
    pub samples: Vec<String>,
    pub violations: Vec<Violation>,
    pub violation_counts: BTreeMap<String, u64>,
    pub exhaustive: BTreeMap<String, bool>,
    pub notes: Vec<String>,
}

impl Report {
    pub fn count(&mut self, k: &str) {
        *self.counters.entry(k.to_string()).or_insert(0) += 1;
    }
    pub fn add(&mut self, k: &str, n: u64) {
        *self.counters.entry(k.to_string()).or_insert(0) += n;
    }
    pub fn nontrivial(&mut self, h: u64) {
        if self.distinct.len() < DISTINCT_CAP {
            self.distinct.insert(h);
        } else {
            self.distinct_saturated = true;
        }
    }
    pub fn merge(&mut self, o: Report) {
        self.evaluations += o.evaluations;
        for (k, v) in o.counters {
            *self.counters.entry(k).or_insert(0) += v;
        }
        for h in o.distinct {
            if self.distinct.len() < DISTINCT_CAP {
                self.distinct.insert(h);
            } else {
                self.distinct_saturated = true;
            }
        }
        self.distinct_saturated |= o.distinct_saturated;
        for s in o.samples {
            if self.samples.len() < 16 {
                self.samples.push(s);
            }
        }
        for v in o.violations {
            let n_same = self
                .violations
                .iter()
                .filter(|x| x.signature == v.signature)
                .count();
            if n_same < 3 && self.violations.len() < 200 {
                self.violations.push(v);
            }
        }
        for (k, v) in o.violation_counts {
            *self.violation_counts.entry(k).or_insert(0) += v;
        }
        for (k, v) in o.exhaustive {
            let e = self.exhaustive.entry(k).or_insert(true);
            *e = *e && v;
        }
        for n in o.notes {
            if !self.notes.contains(&n) {
                self.notes.push(n);
            }
        }
    }

    pub fn to_json(&self, cfg: &Cfg, wall_s: f64) -> String {
        let mut s = String::new();
        s.push_str("{\n");
        let _ = write!(s, "\"property\":{},", jstr(&cfg.prop));
        let _ = write!(s, "\"profile\":{},", jstr(cfg.profile));
        let _ = write!(
            s,
            "\"tier\":{},",
            jstr(if cfg.quick() { "quick" } else { "thorough" })
        );
        let _ = write!(s, "\"seed\":{},", cfg.seed);
        let _ = write!(s, "\"tiny\":{},", cfg.tiny);
        let _ = write!(s, "\"wall_s\":{:.3},", wall_s);
        let _ = write!(s, "\"evaluations\":{},", self.evaluations);
        let _ = write!(s, "\"distinct_nontrivial\":{},", self.distinct.len());
        let _ = write!(s, "\"distinct_saturated\":{},", self.distinct_saturated);
        s.push_str("\"counters\":{");
        let mut first = true;
        for (k, v) in &self.counters {
            if !first {
                s.push(',');
            }
            first = false;
            let _ = write!(s, "{}:{}", jstr(k), v);
        }
        s.push_str("},\n\"exhaustive\":{");
        first = true;
        for (k, v) in &self.exhaustive {
            if !first {
                s.push(',');
            }
            first = false;
            let _ = write!(s, "{}:{}", jstr(k), v);
        }
        s.push_str("},\n\"notes\":[");
        first = true;
        for n in &self.notes {
            if !first {
                s.push(',');
            }
            first = false;
            s.push_str(&jstr(n));
        }
        s.push_str("],\n\"samples\":[");
        first = true;
        for x in &self.samples {
            if !first {
                s.push(',');
            }
            first = false;
            s.push_str(x);
        }
        s.push_str("],\n\"violation_counts\":{");
        first = true;
        for (k, v) in &self.violation_counts {
            if !first {
                s.push(',');
            }
            first = false;
            let _ = write!(s, "{}:{}", jstr(k), v);
        }
        s.push_str("},\n\"violations\":[");
        first = true;
        for v in &self.violations {
            if !first {
                s.push(',');
            }
            first = false;
            let _ = write!(
                s,
                "{{\"signature\":{},\"stage\":{},\"index\":{},\"detail\":{}}}\n",
                jstr(&v.signature),
                jstr(&v.stage),
                v.index,
                v.detail
            );
        }
        s.push_str("]}\n");
        s
    }
}

// ------------------------------------------------------------------------------------------------
// JSON helpers

pub fn jstr(s: &str) -> String {
    let mut o = String::with_capacity(s.len() + 2);
    o.push('"');
    for c in s.chars() {
        match c {
            '"' => o.push_str("\\\""),
            '\\' => o.push_str("\\\\"),
            '\n' => o.push_str("\\n"),
            '\r' => o.push_str("\\r"),
            '\t' => o.push_str("\\t"),
            c if (c as u32) < 0x20 => {
                let _ = write!(o, "\\u{:04x}", c as u32);
            }
            c => o.push(c),
        }
    }
    o.push('"');
    o
}

/// Printable rendering of a byte string: ASCII printable as is, everything else as \xNN.
pub fn show(b: &[u8]) -> String {
    let mut o = String::new();
    let lim = 400;
    for (i, c) in b.iter().enumerate() {
        if i >= lim {
            let _ = write!(o, "...(+{} bytes)", b.len() - lim);
            break;
        }
        match *c {
            b'\\' => o.push_str("\\\\"),
            0x20..=0x7e => o.push(*c as char),
            b'\n' => o.push_str("\\n"),
            b'\r' => o.push_str("\\r"),
            b'\t' => o.push_str("\\t"),
            c => {
                let _ = write!(o, "\\x{:02x}", c);
            }
        }
    }
    o
}

pub fn hex(b: &[u8]) -> String {
    let mut o = String::new();
    for c in b.iter().take(4096) {
        let _ = write!(o, "{:02x}", c);
    }
    o
}

/// JSON string of a byte slice (escaped rendering)
pub fn jbytes(b: &[u8]) -> String {
    jstr(&show(b))
}

/// Build a JSON object from key / already-JSON value pairs.
pub fn jobj(pairs: &[(&str, String)]) -> String {
    let mut s = String::from("{");
    for (i, (k, v)) in pairs.iter().enumerate() {
        if i > 0 {
            s.push(',');
        }
        s.push_str(&jstr(k));
        s.push(':');
        s.push_str(v);
    }
    s.push('}');
    s
}

pub fn jarr(items: &[String]) -> String {
    let mut s = String::from("[");
    for (i, v) in items.iter().enumerate() {
        if i > 0 {
            s.push(',');
        }
        s.push_str(v);
    }
    s.push(']');
    s
}

// ------------------------------------------------------------------------------------------------
// Panic monitor

thread_local! {
    static LAST_PANIC: std::cell::RefCell<Option<String>> = std::cell::RefCell::new(None);
    static IN_CASE: std::cell::Cell<bool> = std::cell::Cell::new(false);
}

pub fn install_panic_hook() {
    let default = panic::take_hook();
    panic::set_hook(Box::new(move |info| {
        let in_case = IN_CASE.with(|c| c.get());
        let loc = info
            .location()
            .map(|l| format!("{}:{}", l.file(), l.line()))
            .unwrap_or_else(|| "?".into());
        let msg = if let Some(s) = info.payload().downcast_ref::<&str>() {
            s.to_string()
        } else if let Some(s) = info.payload().downcast_ref::<String>() {
            s.clone()
        } else {
            "?".into()
        };
        if in_case {
            LAST_PANIC.with(|p| *p.borrow_mut() = Some(format!("{} @ {}", msg, loc)));
        } else {
            default(info);
        }
    }));
}

/// Strip line numbers / make a panic description stable enough to be a signature
pub fn panic_signature(p: &str) -> String {
    // keep file path, drop line and long numeric details
    let (msg, loc) = match p.rsplit_once(" @ ") {
        Some((m, l)) => (m, l),
        None => (p, "?"),
    };
    let file = loc.rsplit_once(':').map(|x| x.0).unwrap_or(loc);
    let file = file.rsplit_once("/src/").map(|x| x.1).unwrap_or(file);
    let mut m: String = msg
        .chars()
        .map(|c| if c.is_ascii_digit() { '#' } else { c })
        .take(60)
        .collect();
    while m.contains("##") {
        m = m.replace("##", "#");
    }
    format!("panic:{}:{}", file, m)
}

// ------------------------------------------------------------------------------------------------
// Event log for offline checkers (append-only JSON lines; `--events FILE`). Bounded: a property module
// decides what to record, the log stops accepting events at EVENT_CAP.

static EVENT_LOG: Mutex<Option<std::io::BufWriter<std::fs::File>>> = Mutex::new(None);
static EVENT_COUNT: AtomicU64 = AtomicU64::new(0);
pub const EVENT_CAP: u64 = 400_000;

pub fn open_event_log(path: &str) {
    let f = std::fs::File::create(path).expect("create event log");
    *EVENT_LOG.lock().unwrap() = Some(std::io::BufWriter::new(f));
}
pub fn events_enabled() -> bool {
    EVENT_COUNT.load(Ordering::Relaxed) < EVENT_CAP && EVENT_LOG.lock().map(|g| g.is_some()).unwrap_or(false)
}
pub fn log_event(line: &str) {
    use std::io::Write;
    if EVENT_COUNT.fetch_add(1, Ordering::Relaxed) >= EVENT_CAP {
        return;
    }
    if let Ok(mut g) = EVENT_LOG.lock() {
        if let Some(w) = g.as_mut() {
            let _ = w.write_all(line.as_bytes());
            let _ = w.write_all(b"\n");
        }
    }
}
pub fn close_event_log() {
    use std::io::Write;
    if let Ok(mut g) = EVENT_LOG.lock() {
        if let Some(w) = g.as_mut() {
            let _ = w.flush();
        }
        *g = None;
    }
}

// ------------------------------------------------------------------------------------------------
// Crash monitor: a fatal signal (abort from a non-unwinding panic / unsafe precondition check,
// SIGSEGV, SIGBUS, SIGILL, SIGFPE) while a case is running prints which case it was, so that the
// driver can report it with a replay instead of "the harness died".

thread_local! {
    static CUR_INDEX: std::cell::Cell<u64> = const { std::cell::Cell::new(u64::MAX) };
}
static CUR_STAGE: std::sync::atomic::AtomicPtr<u8> = std::sync::atomic::AtomicPtr::new(std::ptr::null_mut());
static CUR_STAGE_LEN: std::sync::atomic::AtomicUsize = std::sync::atomic::AtomicUsize::new(0);

#[cfg(not(miri))]
extern "C" fn crash_handler(sig: libc::c_int) {
    // async-signal-safe: only write(2) of bytes assembled on the stack
    let mut buf = [0u8; 200];
    let mut n = 0usize;
    let mut put = |s: &[u8]| {
        for b in s {
            if n < 199 {
                buf[n] = *b;
                n += 1;
            }
        }
    };
    put(b"\nCRASH-CASE signal=");
    let mut num = |mut v: u64, put: &mut dyn FnMut(&[u8])| {
        let mut d = [0u8; 20];
        let mut k = 20;
        if v == 0 {
            k -= 1;
            d[k] = b'0';
        }
        while v > 0 {
            k -= 1;
            d[k] = b'0' + (v % 10) as u8;
            v /= 10;
        }
        put(&d[k..]);
    };
    num(sig as u64, &mut put);
    put(b" stage=");
    let p = CUR_STAGE.load(Ordering::Relaxed);
    let l = CUR_STAGE_LEN.load(Ordering::Relaxed);
    if !p.is_null() {
        put(unsafe { std::slice::from_raw_parts(p, l.min(60)) });
    }
    put(b" index=");
    let idx = CUR_INDEX.try_with(|c| c.get()).unwrap_or(u64::MAX);
    num(idx, &mut put);
    put(b"\n");
    unsafe {
        libc::write(2, buf.as_ptr() as *const libc::c_void, n);
        libc::signal(sig, libc::SIG_DFL);
        libc::raise(sig);
    }
}

pub fn install_crash_handler() {
    #[cfg(not(miri))]
    unsafe {
        for s in [libc::SIGABRT, libc::SIGSEGV, libc::SIGBUS, libc::SIGILL, libc::SIGFPE] {
            // SA_ONSTACK: a stack overflow (SIGSEGV on the guard page) can only be reported from the alternate signal stack
            // the Rust runtime gives every thread
            let mut sa: libc::sigaction = std::mem::zeroed();
            sa.sa_sigaction = crash_handler as usize;
            sa.sa_flags = libc::SA_ONSTACK;
            libc::sigemptyset(&mut sa.sa_mask);
            libc::sigaction(s, &sa, std::ptr::null_mut());
        }
    }
}

// ------------------------------------------------------------------------------------------------
// Case context

pub struct Ctx<'a> {
    pub cfg: &'a Cfg,
    pub stage: &'a str,
    pub index: u64,
    pub rep: &'a mut Report,
    pub verbose: bool,
}

impl<'a> Ctx<'a> {
    pub fn count(&mut self, k: &str) {
        self.rep.count(k)
    }
    pub fn add(&mut self, k: &str, n: u64) {
        self.rep.add(k, n)
    }
    pub fn nontrivial(&mut self, h: u64) {
        self.rep.nontrivial(h)
    }
    /// record a sample (JSON value) - keeps only a few per worker
    pub fn sample<F: FnOnce() -> String>(&mut self, f: F) {
        if self.rep.samples.len() < 3 || self.verbose {
            let s = f();
            if self.verbose {
                println!("SAMPLE {}", s);
            }
            if self.rep.samples.len() < 3 {
                self.rep.samples.push(s);
            }
        }
    }
    /// record a violation; `detail` must be a JSON value
    pub fn violation(&mut self, signature: &str, detail: String) {
        *self
            .rep
            .violation_counts
            .entry(signature.to_string())
            .or_insert(0) += 1;
        let n_same = self
            .rep
            .violations
            .iter()
            .filter(|x| x.signature == signature)
            .count();
        if self.verbose {
            println!("VIOLATION-DETAIL {} {}", signature, detail);
        }
        if n_same < 3 && self.rep.violations.len() < 200 {
            self.rep.violations.push(Violation {
                signature: signature.to_string(),
                stage: self.stage.to_string(),
                index: self.index,
                detail,
            });
        }
    }
}

// ------------------------------------------------------------------------------------------------
// Watchdog state

pub struct Watch {
    // per worker: (index+1) of the running case (0 = idle), start millis
    cur: Vec<AtomicU64>,
    start_ms: Vec<AtomicU64>,
    t0: Instant,
    done: AtomicBool,
}

/// Run `n` cases of `stage` over worker threads. `f(rng, ctx)` executes one case and reports
/// through ctx. Panics inside f are caught and reported as violations with a `panic:` signature.
pub fn run_cases<F>(cfg: &Cfg, stage: &'static str, n: u64, out: &mut Report, f: F)
where
    F: Fn(&mut Rng, &mut Ctx) + Sync,
{
    if !cfg.stage_enabled(stage) {
        return;
    }
    let threads = if cfg.only.is_some() || cfg.tiny {
        1
    } else {
        cfg.threads.max(1)
    };
    let stage_seed = mix(mix(cfg.seed, hash_str(&cfg.prop)), hash_str(stage));
    {
        // stage name for the crash monitor
        CUR_STAGE_LEN.store(stage.len(), Ordering::Relaxed);
        CUR_STAGE.store(stage.as_ptr() as *mut u8, Ordering::Relaxed);
    }
    let t0 = Instant::now();
    let watch = Arc::new(Watch {
        cur: (0..threads).map(|_| AtomicU64::new(0)).collect(),
        start_ms: (0..threads).map(|_| AtomicU64::new(0)).collect(),
        t0,
        done: AtomicBool::new(false),
    });
    let merged = Mutex::new(Report::default());
    let budget = Duration::from_secs_f64(cfg.budget_s);
    let started = cfg.started;
    let truncated = AtomicBool::new(false);

    std::thread::scope(|sc| {
        // watchdog thread
        if !cfg.tiny && cfg.hang_s > 0 {
            let w = watch.clone();
            let stage_s = stage.to_string();
            let hang_ms = cfg.hang_s * 1000;
            let prop = cfg.prop.clone();
            sc.spawn(move || {
                while !w.done.load(Ordering::Relaxed) {
                    std::thread::sleep(Duration::from_millis(250));
                    let now = w.t0.elapsed().as_millis() as u64;
                    for i in 0..w.cur.len() {
                        let c = w.cur[i].load(Ordering::Relaxed);
                        if c != 0 {
                            let st = w.start_ms[i].load(Ordering::Relaxed);
                            if now.saturating_sub(st) > hang_ms
                                && w.cur[i].load(Ordering::Relaxed) == c
                            {
                                println!(
                                    "SUSPECT-HANG property={} stage={} index={}",
                                    prop,
                                    stage_s,
                                    c - 1
                                );
                                std::process::exit(3);
                            }
                        }
                    }
                }
            });
        }
        let mut handles = Vec::new();
        for w in 0..threads {
            let watch = watch.clone();
            let f = &f;
            let merged = &merged;
            let truncated = &truncated;
            handles.push(sc.spawn(move || {
                let mut rep = Report::default();
                let mut idx = w as u64;
                while idx < n {
                    let this = idx;
                    idx += threads as u64;
                    if let Some((_, only)) = &cfg.only {
                        if this != *only {
                            continue;
                        }
                    }
                    if this % cfg.shard.1 != cfg.shard.0 {
                        continue;
                    }
                    if started.elapsed() > budget {
                        truncated.store(true, Ordering::Relaxed);
                        break;
                    }
                    let mut rng = Rng::new(mix(stage_seed, this));
                    watch.start_ms[w].store(t0.elapsed().as_millis() as u64, Ordering::Relaxed);
                    watch.cur[w].store(this + 1, Ordering::Relaxed);
                    rep.evaluations += 1;
                    CUR_INDEX.with(|c| c.set(this));
                    IN_CASE.with(|c| c.set(true));
                    let r = {
                        let mut ctx = Ctx {
                            cfg,
                            stage,
                            index: this,
                            rep: &mut rep,
                            verbose: cfg.verbose,
                        };
                        panic::catch_unwind(AssertUnwindSafe(|| f(&mut rng, &mut ctx)))
                    };
                    IN_CASE.with(|c| c.set(false));
                    CUR_INDEX.with(|c| c.set(u64::MAX));
                    watch.cur[w].store(0, Ordering::Relaxed);
                    if r.is_err() {
                        let p = LAST_PANIC
                            .with(|p| p.borrow_mut().take())
                            .unwrap_or_else(|| "?".into());
                        let sig = panic_signature(&p);
                        // a panic raised by the harness's own code (generator ran dry, internal assertion) says
                        // nothing about the library: it invalidates the run (exit 2), it is never a violation
                        let own = p.rsplit_once(" @ ").map_or(false, |(_, loc)| loc.starts_with("src/") || loc.contains("/verif/harness/src/"));
                        if own {
                            rep.count(&format!("SELFCHECK-FAILED.harness-panic:{}", sig));
                            if rep.samples.len() < 6 {
                                rep.samples.push(jobj(&[("harness_panic", jstr(&p)), ("stage", jstr(stage)), ("index", this.to_string())]));
                            }
                            continue;
                        }
                        let mut ctx = Ctx {
                            cfg,
                            stage,
                            index: this,
                            rep: &mut rep,
                            verbose: cfg.verbose,
                        };
                        ctx.violation(&sig, jobj(&[("panic", jstr(&p))]));
                    }
                }
                merged.lock().unwrap().merge(rep);
            }));
        }
        for h in handles {
            let _ = h.join();
        }
        watch.done.store(true, Ordering::Relaxed);
    });
    let mut m = merged.into_inner().unwrap();
    if !cfg.tiny && cfg.only.is_none() {
        eprintln!("STAGE-TIME property={} profile={} stage={} cases={} evaluations={} wall_s={:.1}", cfg.prop, cfg.profile, stage, n, m.evaluations, t0.elapsed().as_secs_f64());
    }
    m.add(&format!("stage.{}.cases", stage), m.evaluations);
    if truncated.load(Ordering::Relaxed) {
        m.notes.push(format!(
            "stage {} stopped by its wall-clock budget before all {} planned cases ran",
            stage, n
        ));
        m.add(&format!("stage.{}.truncated", stage), 1);
    }
    out.merge(m);
}

/// Sub-case bookkeeping when one scheduled "case" performs many evaluations.
pub fn bump(ctx: &mut Ctx, n: u64) {
    ctx.rep.evaluations += n;
}
