//! Reference model of the IEEE 488.2 / SCPI-99 status structures as stated in C13, C15, C16.
use crate::refm::errclass::esr_class;
use crate::refm::queue::{QItem, RefQueue};

#[derive(Clone, Copy, Debug, PartialEq, Eq, Default)]
pub struct RegSet {
    pub cond: u16,
    pub event: u16,
    pub enable: u16,
    pub ptr: u16,
    pub ntr: u16,
}

impl RegSet {
    pub fn power_on() -> Self {
        RegSet { cond: 0, event: 0, enable: 0, ptr: 0xffff, ntr: 0 }
    }
    /// per-bit latch: 0->1 with PTR set, 1->0 with NTR set
    pub fn set_condition(&mut self, new: u16) {
        for b in 0..16 {
            let m = 1u16 << b;
            let was = self.cond & m != 0;
            let is = new & m != 0;
            if !was && is && self.ptr & m != 0 {
                self.event |= m;
            }
            if was && !is && self.ntr & m != 0 {
                self.event |= m;
            }
        }
        self.cond = new;
    }
    pub fn preset(&mut self) {
        self.enable = 0;
        self.ptr = 0xffff;
        self.ntr = 0;
    }
}

#[derive(Clone, Debug)]
pub struct RefStatus {
    pub esr: u8,
    pub ese: u8,
    pub sre: u8,
    pub oper: RegSet,
    pub ques: RegSet,
    pub queue: RefQueue,
    /// what *IDN? answers (the four fields joined by commas; empty fields keep their separators)
    pub idn: &'static [u8],
}

impl RefStatus {
    pub fn new(cap: Option<usize>) -> Self {
        RefStatus { esr: 0, ese: 0, sre: 0, oper: RegSet::power_on(), ques: RegSet::power_on(), queue: RefQueue::new(cap), idn: b"VERIF,HARNESS,0,1" }
    }
    /// what the documented wiring does with a failed message's error
    pub fn record_error(&mut self, it: QItem) {
        self.esr |= esr_class(it.code);
        self.queue.push(it);
    }
    /// status byte; `summary_from_event` selects SCPI-99's definition (event & enable) instead of the
    /// project's documented one (condition & enable); the statement does not choose between them
    pub fn stb(&self, mav: bool, summary_from_event: bool) -> u8 {
        let sum = |r: &RegSet| (if summary_from_event { r.event } else { r.cond } & r.enable & 0x7fff) != 0;
        let mut b = 0u8;
        if self.queue.len() > 0 {
            b |= 0x04;
        }
        if sum(&self.ques) {
            b |= 0x08;
        }
        if mav {
            b |= 0x10;
        }
        if self.esr & self.ese != 0 {
            b |= 0x20;
        }
        if sum(&self.oper) {
            b |= 0x80;
        }
        if b & self.sre & !0x40 != 0 {
            b |= 0x40;
        }
        b
    }
    pub fn cls(&mut self) {
        self.esr = 0;
        self.oper.event = 0;
        self.ques.event = 0;
        self.queue.clear();
    }
}
