//! SCPI-99 vol.1 section 7.1 suffix table, transcribed independently of the library: for every
//! supported quantity, suffix -> factor (and offset for temperatures) to the SI unit in which uom
//! stores the quantity. `alt` is a second acceptable factor where SCPI does not pin the unit.

#[derive(Clone, Copy, Debug)]
pub struct Suf {
    pub s: &'static str,
    pub factor: f64,
    /// value_in_base = (x + pre_offset) * factor
    pub pre_offset: f64,
    pub alt_factor: Option<f64>,
    pub rel_tol: f64,
}

const fn u(s: &'static str, factor: f64) -> Suf {
    Suf { s, factor, pre_offset: 0.0, alt_factor: None, rel_tol: 0.0 }
}

pub const PI: f64 = std::f64::consts::PI;

pub const ANGLE: &[Suf] = &[u("RAD", 1.0), u("DEG", PI / 180.0), u("MNT", PI / 10800.0), u("SEC", PI / 648000.0), u("REV", 2.0 * PI), u("GON", PI / 200.0)];
pub const CAPACITANCE: &[Suf] = &[u("F", 1.0), u("MF", 1e-3), u("UF", 1e-6), u("NF", 1e-9), u("PF", 1e-12)];
pub const CHARGE: &[Suf] = &[u("MAC", 1e6), u("KC", 1e3), u("C", 1.0), u("MC", 1e-3), u("UC", 1e-6), u("AH", 3600.0), u("A.HR", 3600.0), u("MAH", 3.6), u("MA.HR", 3.6)];
pub const CURRENT: &[Suf] = &[u("KA", 1e3), u("A", 1.0), u("MA", 1e-3), u("UA", 1e-6), u("NA", 1e-9)];
pub const POTENTIAL: &[Suf] = &[u("KV", 1e3), u("V", 1.0), u("MV", 1e-3), u("UV", 1e-6)];
pub const CONDUCTANCE: &[Suf] = &[u("KSIE", 1e3), u("SIE", 1.0), u("MSIE", 1e-3), u("USIE", 1e-6)];
/// MOHM is the SCPI exception: mega-ohm
pub const RESISTANCE: &[Suf] = &[u("GOHM", 1e9), u("MOHM", 1e6), u("KOHM", 1e3), u("OHM", 1.0), u("UOHM", 1e-6)];
pub const ENERGY: &[Suf] = &[
    u("MAJ", 1e6), u("KJ", 1e3), u("J", 1.0), u("MJ", 1e-3), u("UJ", 1e-6), u("MAW.HR", 3.6e9), u("WH", 3600.0), u("W.HR", 3600.0), u("MW.HR", 3.6),
    Suf { s: "EV", factor: 1.602176634e-19, pre_offset: 0.0, alt_factor: None, rel_tol: 1e-5 },
];
pub const INDUCTANCE: &[Suf] = &[u("H", 1.0), u("MH", 1e-3), u("UH", 1e-6), u("NH", 1e-9), u("PH", 1e-12)];
pub const POWER: &[Suf] = &[u("MAW", 1e6), u("KW", 1e3), u("W", 1.0), u("MW", 1e-3), u("UW", 1e-6)];
pub const RATIO: &[Suf] = &[u("PCT", 1e-2), u("PPM", 1e-6)];
pub const TEMPERATURE: &[Suf] = &[
    Suf { s: "CEL", factor: 1.0, pre_offset: 273.15, alt_factor: None, rel_tol: 0.0 },
    Suf { s: "FAR", factor: 5.0 / 9.0, pre_offset: 459.67, alt_factor: None, rel_tol: 0.0 },
    u("K", 1.0),
];
pub const TIME: &[Suf] = &[
    u("S", 1.0), u("MS", 1e-3), u("US", 1e-6), u("NS", 1e-9), u("MIN", 60.0), u("HR", 3600.0), u("D", 86400.0),
    Suf { s: "ANN", factor: 365.0 * 86400.0, pre_offset: 0.0, alt_factor: Some(365.25 * 86400.0), rel_tol: 2e-5 },
];
/// MHZ is the SCPI exception: mega-hertz
pub const FREQUENCY: &[Suf] = &[u("GHZ", 1e9), u("MHZ", 1e6), u("MAHZ", 1e6), u("KHZ", 1e3), u("HZ", 1.0)];

/// suffixes of *other* quantities / plausible but undefined multipliers, used as undefined candidates
pub const FOREIGN: &[&str] = &[
    "V", "A", "HZ", "S", "OHM", "W", "F", "H", "J", "C", "K", "CEL", "FAR", "RAD", "DEG", "PCT", "PPM", "SIE", "DB", "DBM", "DBV", "MIN", "HR", "D", "ANN", "KHZ", "MHZ", "GHZ", "MAHZ", "MV", "KV", "UV", "MA", "UA", "NA",
    "KA", "MS", "US", "NS", "KOHM", "MOHM", "GOHM", "MAOHM", "TV", "GV", "PV", "NV", "MAV", "MAA", "GA", "THZ", "PS", "KS", "MAF", "KF", "GW", "NW", "MAS", "KRAD", "MRAD", "MDEG", "KPCT", "MK", "KK", "MCEL", "VV", "AA",
    "VPK", "VPP", "VRMS", "X", "ZZ", "M", "KG", "N", "PA", "BAR", "L", "G", "T", "WB", "LM", "LX", "BQ", "GY", "SV", "MOL", "CD", "EV", "MEV", "KEV", "WH", "KWH", "W.HR", "AH", "A.HR", "MAH",
];
