//! C03's iff, literally: a candidate matches a defined mnemonic `LONGform[n]` iff, ignoring case,
//! its alphabetic part equals the short form (upper-case part) or the complete long form, and its
//! numeric suffix equals the defined one, an absent suffix on either side meaning 1.

/// Split trailing decimal digits: ("ABC", "12"). The head may be empty, the tail may be empty.
pub fn split_suffix(s: &[u8]) -> (&[u8], &[u8]) {
    let mut i = s.len();
    while i > 0 && s[i - 1].is_ascii_digit() {
        i -= 1;
    }
    (&s[..i], &s[i..])
}

/// Short form of a definition head = its leading run of non-lower-case characters
/// (SCPI shape: upper-case letters first, then an optional lower-case remainder).
pub fn short_len(head: &[u8]) -> usize {
    head.iter().take_while(|c| !c.is_ascii_lowercase()).count()
}

fn eq_nocase(a: &[u8], b: &[u8]) -> bool {
    a.len() == b.len() && a.iter().zip(b).all(|(x, y)| x.eq_ignore_ascii_case(y))
}

/// alpha-part rule only (keywords without suffix: MIN/MAX/INF/...)
pub fn ref_alpha_match(def_head: &[u8], cand: &[u8]) -> bool {
    let sl = short_len(def_head);
    eq_nocase(def_head, cand) || eq_nocase(&def_head[..sl], cand)
}

/// Suffix with "absent means 1". Suffixes are compared as written: the property's own list of
/// typical regressions names "treating suffix `01` as 1", so `01` is a different suffix from `1`.
pub fn suffix_canon(d: &[u8]) -> Option<&[u8]> {
    if d.is_empty() {
        Some(b"1")
    } else {
        Some(d)
    }
}

/// Some(true/false) = verdict, None = outside the specified domain.
pub fn ref_match(def: &[u8], cand: &[u8]) -> Option<bool> {
    let (dh, ds) = split_suffix(def);
    let (ch, cs) = split_suffix(cand);
    if dh.is_empty() || ch.is_empty() {
        // pure digits / empty strings are not mnemonics
        return None;
    }
    let alpha = ref_alpha_match(dh, ch);
    if !alpha {
        return Some(false);
    }
    match (suffix_canon(ds), suffix_canon(cs)) {
        (Some(a), Some(b)) => Some(a == b),
        // leading-zero forms: if the digit strings are byte-identical they certainly match
        _ => {
            if ds == cs {
                Some(true)
            } else {
                None
            }
        }
    }
}

#[cfg(test)]
mod tests {
    use super::*;
    #[test]
    fn basics() {
        assert_eq!(ref_match(b"TRIGger", b"trig"), Some(true));
        assert_eq!(ref_match(b"TRIGger", b"trigg"), Some(false));
        assert_eq!(ref_match(b"TRIGger", b"trigger1"), Some(true));
        assert_eq!(ref_match(b"TRIGger2", b"trig"), Some(false));
        assert_eq!(ref_match(b"TRIGger2", b"trig2"), Some(true));
        assert_eq!(ref_match(b"CHANnel1", b"chan"), Some(true));
        assert_eq!(ref_match(b"CHANnel", b"chan01"), Some(false));
        assert_eq!(ref_match(b"CHANnel2", b"chan02"), Some(false));
        assert_eq!(ref_match(b"L01", b"l01"), Some(true));
        assert_eq!(ref_match(b"L125", b"l125"), Some(true));
        assert_eq!(ref_match(b"L125", b"l"), Some(false));
    }
}
