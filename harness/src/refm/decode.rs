//! Independent decoders for IEEE 488.2 / SCPI *response* syntax (488.2 section 8).
//! Used to check that emitted text is a valid element of its kind and denotes the original value.

#[derive(Clone, Debug, PartialEq)]
pub enum RKind {
    /// numeric / character / anything that is a plain run without delimiters
    Plain,
    Str,
    Block,
    Expr,
}

#[derive(Clone, Debug, PartialEq)]
pub struct RDatum {
    pub kind: RKind,
    pub span: (usize, usize),
}

/// Split a response message into units and data elements, honouring strings, definite blocks and
/// parentheses. Returns None when the text is structurally malformed (unterminated string, block
/// running past the end, empty element, missing/duplicated terminator...).
/// `terminated`: whether a single final NL is required (true) or must be absent (false).
pub fn split_response(s: &[u8], terminated: bool, header_lens: &[usize]) -> Option<Vec<Vec<RDatum>>> {
    let mut units = vec![];
    let mut cur: Vec<RDatum> = vec![];
    let mut i = 0usize;
    let end = if terminated {
        if s.last() != Some(&b'\n') {
            return None;
        }
        s.len() - 1
    } else {
        s.len()
    };
    let mut at_unit_start = true;
    loop {
        // response header (length known to the caller) precedes the first datum of a unit
        if at_unit_start {
            let hl = header_lens.get(units.len()).copied().unwrap_or(0);
            if i + hl > end {
                return None;
            }
            i += hl;
            at_unit_start = false;
        }
        // one datum
        let st = i;
        if i >= end {
            return None; // empty element
        }
        let kind;
        match s[i] {
            b'"' => {
                i += 1;
                loop {
                    if i >= end {
                        return None;
                    }
                    if s[i] == b'"' {
                        if i + 1 < end && s[i + 1] == b'"' {
                            i += 2;
                            continue;
                        }
                        i += 1;
                        break;
                    }
                    i += 1;
                }
                kind = RKind::Str;
            }
            b'#' if i + 1 < end && s[i + 1].is_ascii_digit() && s[i + 1] != b'0' => {
                let nd = (s[i + 1] - b'0') as usize;
                if i + 2 + nd > end {
                    return None;
                }
                let mut len = 0usize;
                for k in 0..nd {
                    let c = s[i + 2 + k];
                    if !c.is_ascii_digit() {
                        return None;
                    }
                    len = len * 10 + (c - b'0') as usize;
                }
                if i + 2 + nd + len > end {
                    return None;
                }
                i += 2 + nd + len;
                kind = RKind::Block;
            }
            b'(' => {
                while i < end && s[i] != b')' {
                    i += 1;
                }
                if i >= end {
                    return None;
                }
                i += 1;
                kind = RKind::Expr;
            }
            _ => {
                while i < end && s[i] != b',' && s[i] != b';' && s[i] != b'\n' {
                    i += 1;
                }
                if i == st {
                    return None;
                }
                kind = RKind::Plain;
            }
        }
        cur.push(RDatum { kind, span: (st, i) });
        if i == end {
            units.push(cur);
            return Some(units);
        }
        match s[i] {
            b',' => i += 1,
            b';' => {
                units.push(std::mem::take(&mut cur));
                at_unit_start = true;
                i += 1;
            }
            _ => return None,
        }
    }
}

/// Decode a quoted response string: returns the denoted bytes (quotes un-doubled) or None.
pub fn decode_string(s: &[u8]) -> Option<Vec<u8>> {
    if s.len() < 2 || s[0] != b'"' || s[s.len() - 1] != b'"' {
        return None;
    }
    let body = &s[1..s.len() - 1];
    let mut out = vec![];
    let mut i = 0;
    while i < body.len() {
        if body[i] == b'"' {
            if i + 1 < body.len() && body[i + 1] == b'"' {
                out.push(b'"');
                i += 2;
            } else {
                return None;
            }
        } else {
            if body[i] >= 0x80 {
                return None;
            }
            out.push(body[i]);
            i += 1;
        }
    }
    Some(out)
}

/// Decode a definite-length block `#<n><len><payload>`; the whole slice must be consumed.
pub fn decode_block(s: &[u8]) -> Option<&[u8]> {
    if s.len() < 3 || s[0] != b'#' || !s[1].is_ascii_digit() || s[1] == b'0' {
        return None;
    }
    let nd = (s[1] - b'0') as usize;
    if s.len() < 2 + nd {
        return None;
    }
    let mut len = 0usize;
    for c in &s[2..2 + nd] {
        if !c.is_ascii_digit() {
            return None;
        }
        len = len * 10 + (*c - b'0') as usize;
    }
    if s.len() != 2 + nd + len {
        return None;
    }
    Some(&s[2 + nd..])
}

/// NR1: optional sign, digits. Returns the value.
pub fn decode_nr1(s: &[u8]) -> Option<i128> {
    let (neg, d) = match s.first() {
        Some(b'-') => (true, &s[1..]),
        Some(b'+') => (false, &s[1..]),
        _ => (false, s),
    };
    if d.is_empty() || d.len() > 38 || !d.iter().all(|c| c.is_ascii_digit()) {
        return None;
    }
    let mut v: i128 = 0;
    for c in d {
        v = v * 10 + (*c - b'0') as i128;
    }
    Some(if neg { -v } else { v })
}

/// Non-decimal response `#H..` / `#Q..` / `#B..` (upper-case radix letter; hex digits upper-case per 488.2 8.7.5-7)
pub fn decode_nondecimal(s: &[u8], radix_letter: u8) -> Option<u128> {
    if s.len() < 3 || s[0] != b'#' || s[1] != radix_letter {
        return None;
    }
    let radix = match radix_letter {
        b'H' => 16,
        b'Q' => 8,
        b'B' => 2,
        _ => return None,
    };
    let mut v: u128 = 0;
    for c in &s[2..] {
        if c.is_ascii_lowercase() {
            return None;
        }
        let d = (*c as char).to_digit(radix)?;
        v = v.checked_mul(radix as u128)?.checked_add(d as u128)?;
    }
    Some(v)
}

/// Is `s` a syntactically valid <NRf> (488.2 listening format: sign, mantissa, optional exponent)?
pub fn is_nrf(s: &[u8]) -> bool {
    let mut i = 0;
    if i < s.len() && (s[i] == b'+' || s[i] == b'-') {
        i += 1;
    }
    let ds = i;
    while i < s.len() && s[i].is_ascii_digit() {
        i += 1;
    }
    let mut nd = i - ds;
    if i < s.len() && s[i] == b'.' {
        i += 1;
        let fs = i;
        while i < s.len() && s[i].is_ascii_digit() {
            i += 1;
        }
        nd += i - fs;
    }
    if nd == 0 {
        return false;
    }
    if i < s.len() && (s[i] == b'E' || s[i] == b'e') {
        i += 1;
        if i < s.len() && (s[i] == b'+' || s[i] == b'-') {
            i += 1;
        }
        let es = i;
        while i < s.len() && s[i].is_ascii_digit() {
            i += 1;
        }
        if i == es {
            return false;
        }
    }
    i == s.len()
}

/// character response data: alpha then alnum/_ , at most 12
pub fn is_chardata(s: &[u8]) -> bool {
    !s.is_empty() && s.len() <= 12 && s[0].is_ascii_alphabetic() && s.iter().all(|c| c.is_ascii_alphanumeric() || *c == b'_')
}
