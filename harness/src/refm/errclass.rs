//! ESR class of an error/event number, written out from the statement of C14
//! (IEEE 488.2 11.5.1 / SCPI-99 21.8).
pub const BIT_OPC: u8 = 0x01;
pub const BIT_RQC: u8 = 0x02;
pub const BIT_QYE: u8 = 0x04;
pub const BIT_DDE: u8 = 0x08;
pub const BIT_EXE: u8 = 0x10;
pub const BIT_CME: u8 = 0x20;
pub const BIT_URQ: u8 = 0x40;
pub const BIT_PON: u8 = 0x80;

pub fn esr_class(code: i16) -> u8 {
    let c = code as i32;
    if c > 0 {
        return BIT_DDE;
    }
    let century = (-c) / 100;
    match century {
        0 => 0,
        1 => BIT_CME,
        2 => BIT_EXE,
        3 => BIT_DDE,
        4 => BIT_QYE,
        5 => BIT_PON,
        6 => BIT_URQ,
        7 => BIT_RQC,
        8 => BIT_OPC,
        _ => BIT_DDE,
    }
}

pub fn is_command_error(code: i16) -> bool {
    (-199..=-100).contains(&code)
}
pub fn is_execution_error(code: i16) -> bool {
    (-299..=-200).contains(&code)
}
