//! Reference lexer for IEEE 488.2 section 7 program messages (as used by SCPI instruments).
//!
//! Three-valued: Accept(decomposition) / Reject(reason) / Unspecified(zone). Written from the
//! standard's syntax diagrams; shares no code with /repo. Zones on which the standard, the
//! project's documentation or its own pinned tests leave the behaviour open give `Unspecified`
//! (see DESIGN.md 3.1) and no verdict is derived from them.

#[derive(Clone, Copy, Debug, PartialEq, Eq, Hash)]
pub enum DKind {
    Char,
    Dec,
    DecSuffix,
    NonDec,
    Str,
    Block,
    Expr,
}

pub const ALL_KINDS: [DKind; 7] = [DKind::Char, DKind::Dec, DKind::DecSuffix, DKind::NonDec, DKind::Str, DKind::Block, DKind::Expr];

impl DKind {
    pub fn name(&self) -> &'static str {
        match self {
            DKind::Char => "chardata",
            DKind::Dec => "decimal",
            DKind::DecSuffix => "suffixed",
            DKind::NonDec => "nondecimal",
            DKind::Str => "string",
            DKind::Block => "block",
            DKind::Expr => "expression",
        }
    }
}

pub type Range = (usize, usize); // [start, end)

#[derive(Clone, Debug, PartialEq, Eq)]
pub struct Datum {
    pub kind: DKind,
    /// payload byte range (number text / characters / between quotes / block payload / between parens)
    pub a: Range,
    /// suffix byte range (DecSuffix only)
    pub b: Range,
    /// value (NonDec only)
    pub value: u64,
    /// whole element incl. delimiters
    pub span: Range,
}

#[derive(Clone, Debug, PartialEq, Eq)]
pub struct Unit {
    pub leading_colon: bool,
    pub common: bool,
    /// mnemonic byte ranges; for a common command the range includes the '*'
    pub mnemonics: Vec<Range>,
    pub query: bool,
    pub data: Vec<Datum>,
    pub span: Range,
}

#[derive(Clone, Debug, PartialEq, Eq)]
pub struct Accepted {
    pub units: Vec<Unit>,
    /// white space precedes the first header
    pub leading_ws: bool,
    pub trailing_semicolon: bool,
    pub terminated: bool,
}

#[derive(Clone, Debug, PartialEq, Eq)]
pub enum Lex {
    Accept(Accepted),
    Reject(&'static str, usize),
    Unspecified(&'static str),
}

/// white space the library and 488.2 agree on (NL excluded: it is the terminator)
pub fn is_ws(b: u8) -> bool {
    b == b' ' || b == b'\t' || b == b'\r' || b == 0x0c
}
/// 488.2 white space that Rust's is_ascii_whitespace does not include
fn is_ws_488_only(b: u8) -> bool {
    matches!(b, 0x00..=0x08 | 0x0b | 0x0e..=0x1f)
}

enum Stop {
    Reject(&'static str, usize),
    Unspec(&'static str),
}

struct P<'a> {
    s: &'a [u8],
    i: usize,
}

impl<'a> P<'a> {
    fn peek(&self) -> Option<u8> {
        self.s.get(self.i).copied()
    }
    fn at_final_nl(&self) -> bool {
        self.i + 1 == self.s.len() && self.s[self.i] == b'\n'
    }
    /// skip agreed white space; Unspecified on 488.2-only white space or a non-final NL
    fn skip_ws(&mut self) -> Result<usize, Stop> {
        let st = self.i;
        while let Some(b) = self.peek() {
            if is_ws(b) {
                self.i += 1;
            } else if is_ws_488_only(b) {
                return Err(Stop::Unspec("control byte that is white space in 488.2 only"));
            } else if b == b'\n' && !self.at_final_nl() {
                return Err(Stop::Unspec("NL that is not the final byte"));
            } else {
                break;
            }
        }
        Ok(self.i - st)
    }
    /// at end of unit? (';', final NL, end of input)
    fn at_unit_end(&self) -> bool {
        match self.peek() {
            None => true,
            Some(b';') => true,
            Some(b'\n') => self.at_final_nl(),
            _ => false,
        }
    }
    fn mnemonic(&mut self, what_long: &'static str) -> Result<Range, Stop> {
        let st = self.i;
        match self.peek() {
            Some(b) if b.is_ascii_alphabetic() => {}
            Some(b) if b >= 0x80 => return Err(Stop::Reject("non-ASCII byte outside block data", self.i)),
            _ => return Err(Stop::Reject("header: mnemonic expected", self.i)),
        }
        while let Some(b) = self.peek() {
            if b.is_ascii_alphanumeric() || b == b'_' {
                self.i += 1;
            } else {
                break;
            }
        }
        if self.i - st > 12 {
            return Err(Stop::Reject(what_long, st));
        }
        Ok((st, self.i))
    }

    /// after a datum: optional ws, then `,` `;` final NL or end
    fn after_datum(&mut self, why: &'static str) -> Result<(), Stop> {
        self.skip_ws()?;
        match self.peek() {
            None | Some(b',') | Some(b';') => Ok(()),
            Some(b'\n') if self.at_final_nl() => Ok(()),
            Some(b) if b >= 0x80 => Err(Stop::Reject("non-ASCII byte outside block data", self.i)),
            Some(_) => Err(Stop::Reject(why, self.i)),
        }
    }

    fn datum(&mut self) -> Result<(Datum, bool), Stop> {
        let st = self.i;
        let b = match self.peek() {
            Some(b) => b,
            None => return Err(Stop::Reject("data expected", self.i)),
        };
        let mut d = Datum { kind: DKind::Char, a: (0, 0), b: (0, 0), value: 0, span: (st, st) };
        let mut ends_message = false;
        if b.is_ascii_alphabetic() {
            while let Some(c) = self.peek() {
                if c.is_ascii_alphanumeric() || c == b'_' {
                    self.i += 1;
                } else {
                    break;
                }
            }
            if self.i - st > 12 {
                return Err(Stop::Reject("character data longer than 12", st));
            }
            d.kind = DKind::Char;
            d.a = (st, self.i);
            d.span = (st, self.i);
            self.after_datum("missing separator after character data")?;
        } else if b.is_ascii_digit() || b == b'+' || b == b'-' || b == b'.' {
            if b == b'+' || b == b'-' {
                self.i += 1;
            }
            let ds = self.i;
            while self.peek().map_or(false, |c| c.is_ascii_digit()) {
                self.i += 1;
            }
            let int_digits = self.i - ds;
            let mut frac_digits = 0;
            if self.peek() == Some(b'.') {
                self.i += 1;
                let fs = self.i;
                while self.peek().map_or(false, |c| c.is_ascii_digit()) {
                    self.i += 1;
                }
                frac_digits = self.i - fs;
            }
            if int_digits + frac_digits == 0 {
                return Err(Stop::Reject("numeric: no mantissa digits", st));
            }
            // exponent
            let save = self.i;
            let mut k = self.i;
            let mut ws1 = 0;
            while self.s.get(k).map_or(false, |c| is_ws(*c)) {
                k += 1;
                ws1 += 1;
            }
            if matches!(self.s.get(k), Some(b'E') | Some(b'e')) {
                let mut j = k + 1;
                let mut ws2 = 0;
                while self.s.get(j).map_or(false, |c| is_ws(*c)) {
                    j += 1;
                    ws2 += 1;
                }
                let mut j2 = j;
                if matches!(self.s.get(j2), Some(b'+') | Some(b'-')) {
                    j2 += 1;
                }
                let has_digits = self.s.get(j2).map_or(false, |c| c.is_ascii_digit());
                if has_digits {
                    if ws1 + ws2 > 0 {
                        return Err(Stop::Unspec("white space around the exponent mark"));
                    }
                    self.i = j2;
                    while self.peek().map_or(false, |c| c.is_ascii_digit()) {
                        self.i += 1;
                    }
                } else if ws1 == 0 {
                    return Err(Stop::Unspec("E directly after the mantissa without exponent digits"));
                } else {
                    self.i = save;
                }
            }
            let num_end = self.i;
            d.a = (st, num_end);
            self.skip_ws()?;
            match self.peek() {
                Some(c) if c.is_ascii_alphabetic() || c == b'/' => {
                    let ss = self.i;
                    while let Some(c) = self.peek() {
                        if c.is_ascii_alphanumeric() || c == b'/' || c == b'.' || c == b'-' {
                            self.i += 1;
                        } else {
                            break;
                        }
                    }
                    if self.i - ss > 12 {
                        return Err(Stop::Reject("suffix longer than 12", ss));
                    }
                    if !strict_suffix(&self.s[ss..self.i]) {
                        return Err(Stop::Unspec("suffix outside the simple 488.2 suffix grammar"));
                    }
                    d.kind = DKind::DecSuffix;
                    d.b = (ss, self.i);
                    d.span = (st, self.i);
                    self.after_datum("missing separator after suffix")?;
                }
                _ => {
                    d.kind = DKind::Dec;
                    d.span = (st, num_end);
                    self.after_datum("missing separator after numeric")?;
                }
            }
        } else if b == b'#' {
            self.i += 1;
            match self.peek() {
                None => return Err(Stop::Reject("malformed block: # at end", st)),
                Some(r) if matches!(r.to_ascii_uppercase(), b'H' | b'Q' | b'B') => {
                    let radix: u32 = match r.to_ascii_uppercase() {
                        b'H' => 16,
                        b'Q' => 8,
                        _ => 2,
                    };
                    self.i += 1;
                    let ds = self.i;
                    let mut v: u128 = 0;
                    let mut over = false;
                    while let Some(c) = self.peek() {
                        match (c as char).to_digit(radix) {
                            Some(x) => {
                                v = v * radix as u128 + x as u128;
                                if v > u64::MAX as u128 {
                                    over = true;
                                    v = u64::MAX as u128;
                                }
                                self.i += 1;
                            }
                            None => break,
                        }
                    }
                    if self.i == ds {
                        return Err(Stop::Reject("non-decimal numeric without digits", st));
                    }
                    if over {
                        return Err(Stop::Unspec("non-decimal literal beyond 64 bits"));
                    }
                    d.kind = DKind::NonDec;
                    d.value = v as u64;
                    d.a = (ds, self.i);
                    d.span = (st, self.i);
                    self.after_datum("missing separator after non-decimal numeric")?;
                }
                Some(b'0') => {
                    // indefinite length: rest of message, terminated by NL + END
                    self.i += 1;
                    if self.s.last() != Some(&b'\n') || self.s.len() - 1 < self.i {
                        return Err(Stop::Reject("malformed block: indefinite form not terminated by NL", st));
                    }
                    d.kind = DKind::Block;
                    d.a = (self.i, self.s.len() - 1);
                    d.span = (st, self.s.len() - 1);
                    self.i = self.s.len() - 1;
                    ends_message = true;
                }
                Some(n) if n.is_ascii_digit() => {
                    self.i += 1;
                    let nd = (n - b'0') as usize;
                    let hs = self.i;
                    if self.s.len() < hs + nd {
                        return Err(Stop::Reject("truncated block header", st));
                    }
                    let mut len: usize = 0;
                    for k in 0..nd {
                        let c = self.s[hs + k];
                        if !c.is_ascii_digit() {
                            return Err(Stop::Reject("malformed block: non-digit in length", hs + k));
                        }
                        len = len * 10 + (c - b'0') as usize;
                    }
                    self.i = hs + nd;
                    if self.s.len() < self.i + len {
                        return Err(Stop::Reject("truncated block", st));
                    }
                    d.kind = DKind::Block;
                    d.a = (self.i, self.i + len);
                    self.i += len;
                    d.span = (st, self.i);
                    self.after_datum("missing separator after block")?;
                }
                Some(c) if c >= 0x80 => return Err(Stop::Reject("non-ASCII byte outside block data", self.i)),
                Some(_) => return Err(Stop::Reject("malformed # element", st)),
            }
        } else if b == b'"' || b == b'\'' {
            self.i += 1;
            let ps = self.i;
            loop {
                match self.peek() {
                    None => return Err(Stop::Reject("unterminated string", st)),
                    Some(c) if c == b => {
                        if self.s.get(self.i + 1) == Some(&b) {
                            self.i += 2;
                        } else {
                            break;
                        }
                    }
                    Some(c) if c >= 0x80 => return Err(Stop::Reject("non-ASCII byte outside block data", self.i)),
                    Some(_) => self.i += 1,
                }
            }
            d.kind = DKind::Str;
            d.a = (ps, self.i);
            self.i += 1;
            d.span = (st, self.i);
            self.after_datum("missing separator after string")?;
        } else if b == b'(' {
            self.i += 1;
            let ps = self.i;
            loop {
                match self.peek() {
                    None => return Err(Stop::Reject("unterminated expression", st)),
                    Some(b')') => break,
                    Some(c) if c >= 0x80 => return Err(Stop::Reject("non-ASCII byte outside block data", self.i)),
                    // 488.2 7.7.7.2: an expression holds no quote, parenthesis or `;` (the library agrees); `#` is
                    // excluded by 488.2 as well but the library lets it through: left unjudged
                    Some(b'"') | Some(b'\'') | Some(b'(') | Some(b';') => return Err(Stop::Reject("quote, parenthesis or ; inside an expression", self.i)),
                    Some(b'#') => return Err(Stop::Unspec("# inside an expression")),
                    Some(b'\n') => return Err(Stop::Unspec("NL inside an expression")),
                    Some(_) => self.i += 1,
                }
            }
            if self.i == ps {
                return Err(Stop::Unspec("empty expression"));
            }
            d.kind = DKind::Expr;
            d.a = (ps, self.i);
            self.i += 1;
            d.span = (st, self.i);
            self.after_datum("missing separator after expression")?;
        } else if b >= 0x80 {
            return Err(Stop::Reject("non-ASCII byte outside block data", self.i));
        } else if b == b',' {
            return Err(Stop::Reject("misplaced comma", self.i));
        } else if b == b':' {
            return Err(Stop::Reject("misplaced colon", self.i));
        } else if is_ws_488_only(b) {
            return Err(Stop::Unspec("control byte that is white space in 488.2 only"));
        } else {
            return Err(Stop::Reject("byte that cannot start a data element", self.i));
        }
        Ok((d, ends_message))
    }

    fn unit(&mut self) -> Result<(Unit, bool), Stop> {
        let st = self.i;
        let mut u = Unit { leading_colon: false, common: false, mnemonics: vec![], query: false, data: vec![], span: (st, st) };
        match self.peek() {
            Some(b'*') => {
                u.common = true;
                self.i += 1;
                let (_, e) = self.mnemonic("mnemonic longer than 12")?;
                // 488.2 limits the mnemonic after '*' to 12 characters; whether the '*' counts is left open here
                if e - (st + 1) == 12 {
                    return Err(Stop::Unspec("common command mnemonic of exactly 12 characters after *"));
                }
                u.mnemonics.push((st, e));
            }
            _ => {
                if self.peek() == Some(b':') {
                    u.leading_colon = true;
                    self.i += 1;
                }
                u.mnemonics.push(self.mnemonic("mnemonic longer than 12")?);
                while self.peek() == Some(b':') {
                    self.i += 1;
                    match self.peek() {
                        Some(c) if c.is_ascii_alphabetic() => {}
                        Some(c) if c >= 0x80 => return Err(Stop::Reject("non-ASCII byte outside block data", self.i)),
                        _ => return Err(Stop::Reject("misplaced colon", self.i - 1)),
                    }
                    u.mnemonics.push(self.mnemonic("mnemonic longer than 12")?);
                }
            }
        }
        if self.peek() == Some(b'?') {
            u.query = true;
            self.i += 1;
        }
        // what may follow a header: white space, ';', final NL, end
        match self.peek() {
            None | Some(b';') => {}
            Some(b'\n') if self.at_final_nl() => {}
            Some(c) if is_ws(c) => {}
            Some(b'\n') => return Err(Stop::Unspec("NL that is not the final byte")),
            Some(c) if is_ws_488_only(c) => return Err(Stop::Unspec("control byte that is white space in 488.2 only")),
            Some(c) if c >= 0x80 => return Err(Stop::Reject("non-ASCII byte outside block data", self.i)),
            Some(b':') => return Err(Stop::Reject("misplaced colon", self.i)),
            Some(b',') => return Err(Stop::Reject("misplaced comma", self.i)),
            Some(_) => return Err(Stop::Reject("header not followed by separator", self.i)),
        }
        let ws = self.skip_ws()?;
        let mut ends_message = false;
        if ws > 0 && !self.at_unit_end() {
            loop {
                let (d, end) = self.datum()?;
                u.data.push(d);
                if end {
                    ends_message = true;
                    break;
                }
                // datum() already skipped trailing ws and checked the follower
                if self.peek() == Some(b',') {
                    self.i += 1;
                    self.skip_ws()?;
                    if self.at_unit_end() {
                        return Err(Stop::Reject("misplaced comma", self.i - 1));
                    }
                    continue;
                }
                break;
            }
        }
        u.span = (st, self.i);
        Ok((u, ends_message))
    }
}

/// strict 488.2 suffix: ['/'] unit { ('/'|'.') unit }, unit = alpha+ [['-'] digit]
pub fn strict_suffix(s: &[u8]) -> bool {
    let mut i = 0;
    if s.first() == Some(&b'/') {
        i += 1;
    }
    loop {
        let st = i;
        while i < s.len() && s[i].is_ascii_alphabetic() {
            i += 1;
        }
        if i == st {
            return false;
        }
        if i < s.len() && s[i] == b'-' {
            i += 1;
            if !(i < s.len() && s[i].is_ascii_digit()) {
                return false;
            }
            i += 1;
        } else if i < s.len() && s[i].is_ascii_digit() {
            i += 1;
        }
        if i == s.len() {
            return true;
        }
        if s[i] == b'/' || s[i] == b'.' {
            i += 1;
            continue;
        }
        return false;
    }
}

pub fn lex_message(s: &[u8]) -> Lex {
    let mut p = P { s, i: 0 };
    let mut acc = Accepted { units: vec![], leading_ws: false, trailing_semicolon: false, terminated: false };
    let r: Result<(), Stop> = (|| {
        let ws = p.skip_ws()?;
        acc.leading_ws = ws > 0;
        if p.peek().is_none() || p.at_final_nl() {
            if ws > 0 {
                return Err(Stop::Unspec("white-space-only message"));
            }
            acc.terminated = p.peek().is_some();
            return Ok(());
        }
        loop {
            if p.peek() == Some(b';') {
                return Err(Stop::Unspec("empty message unit"));
            }
            let (u, ends) = p.unit()?;
            acc.units.push(u);
            if ends {
                acc.terminated = true;
                return Ok(());
            }
            match p.peek() {
                None => return Ok(()),
                Some(b'\n') => {
                    acc.terminated = true;
                    return Ok(());
                }
                Some(b';') => {
                    p.i += 1;
                    p.skip_ws()?;
                    if p.peek().is_none() || p.at_final_nl() {
                        acc.trailing_semicolon = true;
                        acc.terminated = p.peek().is_some();
                        return Ok(());
                    }
                }
                Some(c) if c >= 0x80 => return Err(Stop::Reject("non-ASCII byte outside block data", p.i)),
                Some(_) => return Err(Stop::Reject("missing separator", p.i)),
            }
        }
    })();
    match r {
        Ok(()) => Lex::Accept(acc),
        Err(Stop::Reject(w, at)) => Lex::Reject(w, at),
        Err(Stop::Unspec(w)) => Lex::Unspecified(w),
    }
}

/// Lex a bare parameter list (what `Tokenizer::new_params` is given): data { , data }
pub fn lex_params(s: &[u8]) -> Result<Vec<Datum>, Lex> {
    // re-use the message lexer with a synthetic header
    let mut m = b"X ".to_vec();
    m.extend_from_slice(s);
    match lex_message(&m) {
        Lex::Accept(a) if a.units.len() == 1 && !a.trailing_semicolon => {
            let mut v = a.units[0].data.clone();
            for d in v.iter_mut() {
                d.a = (d.a.0.saturating_sub(2), d.a.1.saturating_sub(2));
                d.b = (d.b.0.saturating_sub(2), d.b.1.saturating_sub(2));
                d.span = (d.span.0 - 2, d.span.1 - 2);
            }
            Ok(v)
        }
        Lex::Accept(_) => Err(Lex::Unspecified("not a single parameter list")),
        other => Err(other),
    }
}

#[cfg(test)]
mod tests {
    use super::*;
    fn acc(s: &[u8]) -> Accepted {
        match lex_message(s) {
            Lex::Accept(a) => a,
            o => panic!("{:?} for {:?}", o, String::from_utf8_lossy(s)),
        }
    }
    #[test]
    fn accepts() {
        let a = acc(b"SYST:ERR?;*IDN?\n");
        assert_eq!(a.units.len(), 2);
        assert!(a.units[0].query && a.units[1].common);
        let a = acc(b":A:B 1.5e3 V,'x;,y',#13a;c,(1,2:3),#HfF ; C");
        assert_eq!(a.units.len(), 2);
        let k: Vec<DKind> = a.units[0].data.iter().map(|d| d.kind).collect();
        assert_eq!(k, vec![DKind::DecSuffix, DKind::Str, DKind::Block, DKind::Expr, DKind::NonDec]);
        assert_eq!(a.units[0].data[4].value, 255);
        let a = acc(b"A #0abc;,\n\n");
        assert_eq!(a.units[0].data[0].a, (4, 10));
        let a = acc(b"A 'it''s'");
        assert_eq!(a.units[0].data[0].a, (3, 8));
    }
    #[test]
    fn rejects() {
        for s in [&b"A 1 2"[..], b"A 'x", b"A #15ab", b"ABCDEFGHIJKLM", b"A ABCDEFGHIJKLM", b"A::B", b"*A:B", b"A ,1", b"A 1,,2", b"A 1,", b"A \xff", b"A?1", b"A #H", b"A #2x1a", b"A ((1))", b"A (1;2)", b"A ('x')"] {
            assert!(matches!(lex_message(s), Lex::Reject(..)), "{:?} -> {:?}", String::from_utf8_lossy(s), lex_message(s));
        }
    }
    #[test]
    fn unspecified() {
        for s in [&b";A"[..], b"A;;B", b"  ", b"A 1 E5", b"A\nB", b"A ()", b"A (#1)"] {
            assert!(matches!(lex_message(s), Lex::Unspecified(..)), "{:?} -> {:?}", String::from_utf8_lossy(s), lex_message(s));
        }
    }
}
