//! Reference models: independent implementations written from the standards / the property text.
pub mod mnemonic;
