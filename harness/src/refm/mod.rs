//! Reference models: independent implementations written from the standards / the property text.
pub mod mnemonic;
pub mod errclass;
pub mod queue;
pub mod lexer;
pub mod resolver;
pub mod decode;
pub mod decimal;
pub mod suffix;
pub mod status;
