//! Exact decimal arithmetic on NRf literals (no floating point involved): sign, digit string,
//! power of ten. Used to decide the mathematically nearest integer(s) of a literal.

#[derive(Clone, Debug, PartialEq, Eq)]
pub struct Dec {
    pub neg: bool,
    /// significant digits (values 0..=9), no leading zeros; empty = zero
    pub digits: Vec<u8>,
    /// value = digits * 10^exp10
    pub exp10: i64,
}

/// Parse an <NRf> spelling: [sign] (d+ [. d*] | . d+) [E [sign] d+]
pub fn parse_nrf(s: &[u8]) -> Option<Dec> {
    let mut i = 0;
    let mut neg = false;
    if i < s.len() && (s[i] == b'+' || s[i] == b'-') {
        neg = s[i] == b'-';
        i += 1;
    }
    let mut digits: Vec<u8> = vec![];
    let mut nd = 0;
    while i < s.len() && s[i].is_ascii_digit() {
        digits.push(s[i] - b'0');
        i += 1;
        nd += 1;
    }
    let mut frac = 0i64;
    if i < s.len() && s[i] == b'.' {
        i += 1;
        while i < s.len() && s[i].is_ascii_digit() {
            digits.push(s[i] - b'0');
            i += 1;
            frac += 1;
            nd += 1;
        }
    }
    if nd == 0 {
        return None;
    }
    let mut e: i64 = 0;
    if i < s.len() && (s[i] == b'E' || s[i] == b'e') {
        i += 1;
        let mut eneg = false;
        if i < s.len() && (s[i] == b'+' || s[i] == b'-') {
            eneg = s[i] == b'-';
            i += 1;
        }
        let st = i;
        while i < s.len() && s[i].is_ascii_digit() {
            e = (e * 10 + (s[i] - b'0') as i64).min(1_000_000_000);
            i += 1;
        }
        if i == st {
            return None;
        }
        if eneg {
            e = -e;
        }
    }
    if i != s.len() {
        return None;
    }
    // strip leading zeros
    let lead = digits.iter().take_while(|d| **d == 0).count();
    digits.drain(..lead);
    // strip trailing zeros into the exponent
    let mut exp10 = e - frac;
    while digits.last() == Some(&0) {
        digits.pop();
        exp10 += 1;
    }
    if digits.is_empty() {
        exp10 = 0;
    }
    Some(Dec { neg, digits, exp10 })
}

/// An integer candidate: a value that fits i128 comfortably, or "beyond every 64-bit type".
#[derive(Clone, Copy, Debug, PartialEq, Eq, PartialOrd, Ord)]
pub enum Cand {
    HugeNeg,
    Int(i128),
    HugePos,
}

impl Dec {
    pub fn is_zero(&self) -> bool {
        self.digits.is_empty()
    }

    /// Nearest integer(s) of the exact value: one candidate, or both neighbours at an exact tie.
    /// Also returns whether the value is an exact tie.
    pub fn nearest_ints(&self) -> (Vec<Cand>, bool) {
        if self.is_zero() {
            return (vec![Cand::Int(0)], false);
        }
        let n = self.digits.len() as i64;
        let p = n + self.exp10; // number of integer digits (may be <= 0)
        if p > 30 {
            return (vec![if self.neg { Cand::HugeNeg } else { Cand::HugePos }], false);
        }
        let mut ip: i128 = 0;
        let mut frac_first: u8 = 0;
        let mut frac_rest_nonzero = false;
        if p >= n {
            // pure integer: digits followed by zeros
            for d in &self.digits {
                ip = ip * 10 + *d as i128;
            }
            for _ in 0..(p - n) {
                ip *= 10;
            }
        } else if p >= 0 {
            let pu = p as usize;
            for d in &self.digits[..pu] {
                ip = ip * 10 + *d as i128;
            }
            frac_first = self.digits[pu];
            frac_rest_nonzero = self.digits[pu + 1..].iter().any(|d| *d != 0);
        } else {
            // 0.0…0ddd: first fractional digit is 0 -> below one half
            frac_first = 0;
            frac_rest_nonzero = true;
        }
        let sign = if self.neg { -1 } else { 1 };
        if frac_first > 5 || (frac_first == 5 && frac_rest_nonzero) {
            (vec![Cand::Int(sign * (ip + 1))], false)
        } else if frac_first == 5 {
            (vec![Cand::Int(sign * ip), Cand::Int(sign * (ip + 1))], true)
        } else {
            (vec![Cand::Int(sign * ip)], false)
        }
    }

    /// |value| compared with one half: -1 below, 0 equal, 1 above
    pub fn cmp_half(&self) -> i32 {
        if self.is_zero() {
            return -1;
        }
        let n = self.digits.len() as i64;
        let p = n + self.exp10;
        if p > 0 {
            return 1;
        }
        if p < 0 {
            return -1;
        }
        // 0.ddd
        if self.digits[0] > 5 {
            1
        } else if self.digits[0] < 5 {
            -1
        } else if self.digits.len() > 1 {
            1
        } else {
            0
        }
    }
}

/// nearest integers of a binary floating point value (exact: floats are dyadic rationals)
pub fn nearest_ints_f64(x: f64) -> Vec<Cand> {
    if x.is_nan() {
        return vec![];
    }
    if x >= 1e30 {
        return vec![Cand::HugePos];
    }
    if x <= -1e30 {
        return vec![Cand::HugeNeg];
    }
    let fl = x.floor();
    let fr = x - fl; // exact
    let f = fl as i128;
    if fr > 0.5 {
        vec![Cand::Int(f + 1)]
    } else if fr == 0.5 {
        vec![Cand::Int(f), Cand::Int(f + 1)]
    } else {
        vec![Cand::Int(f)]
    }
}

#[cfg(test)]
mod tests {
    use super::*;
    #[test]
    fn near() {
        let n = |s: &str| parse_nrf(s.as_bytes()).unwrap().nearest_ints();
        assert_eq!(n("255.4").0, vec![Cand::Int(255)]);
        assert_eq!(n("255.5"), (vec![Cand::Int(255), Cand::Int(256)], true));
        assert_eq!(n("-0.5"), (vec![Cand::Int(0), Cand::Int(-1)], true));
        assert_eq!(n("0.49999999999999999999999").0, vec![Cand::Int(0)]);
        assert_eq!(n("0.50000000000000000000001").0, vec![Cand::Int(1)]);
        assert_eq!(n("1e3").0, vec![Cand::Int(1000)]);
        assert_eq!(n("12345e-2").0, vec![Cand::Int(123)]);
        assert_eq!(n(".05e1"), (vec![Cand::Int(0), Cand::Int(1)], true));
        assert_eq!(n("1e40").0, vec![Cand::HugePos]);
        assert_eq!(n("-1e-40").0, vec![Cand::Int(0)]);
        assert_eq!(n("18446744073709551615.0").0, vec![Cand::Int(18446744073709551615)]);
        assert_eq!(n("000.000").0, vec![Cand::Int(0)]);
    }
}
