//! Reference error/event queue: FIFO; with a capacity the newest retained slot becomes -350 when a
//! push does not fit.
use std::collections::VecDeque;

#[derive(Clone, Debug, PartialEq, Eq)]
pub struct QItem {
    pub code: i16,
    pub msg: Vec<u8>,
    pub ext: Option<Vec<u8>>,
}

impl QItem {
    pub fn overflow() -> Self {
        QItem { code: -350, msg: b"Queue overflow".to_vec(), ext: None }
    }
}

#[derive(Clone, Debug)]
pub struct RefQueue {
    pub cap: Option<usize>,
    pub q: VecDeque<QItem>,
}

impl RefQueue {
    pub fn new(cap: Option<usize>) -> Self {
        RefQueue { cap, q: VecDeque::new() }
    }
    pub fn push(&mut self, it: QItem) {
        match self.cap {
            Some(n) if self.q.len() >= n => {
                // dropped; newest retained position reads -350
                if let Some(last) = self.q.back_mut() {
                    *last = QItem::overflow();
                }
            }
            _ => self.q.push_back(it),
        }
    }
    pub fn pop(&mut self) -> Option<QItem> {
        self.q.pop_front()
    }
    pub fn len(&self) -> usize {
        self.q.len()
    }
    pub fn clear(&mut self) {
        self.q.clear()
    }
}
