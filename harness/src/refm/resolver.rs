//! Reference header resolver (SCPI-99 vol.1 section 6.2, as stated in property C02).
//!
//! Deliberately written in a different style from the library's recursive descent: every leaf has
//! a path of (name, optional) nodes; a header resolves against a level by an order-preserving
//! embedding of its mnemonics into the remainder of a leaf path in which only optional (default)
//! nodes may be skipped.
use crate::mon::tree::{Spec, SpecKind};
use crate::refm::mnemonic::ref_match;

#[derive(Clone, Debug)]
pub struct RNode {
    pub name: Vec<u8>,
    pub default: bool,
    pub handler: Option<usize>,
    pub parent: Option<usize>,
    pub children: Vec<usize>,
}

#[derive(Clone, Debug)]
pub struct RTree {
    pub nodes: Vec<RNode>,
    /// leaf node ids
    pub leaves: Vec<usize>,
}

#[derive(Clone, Debug, PartialEq, Eq)]
pub enum Res {
    /// designated handler, new level (branch node id)
    Leaf { handler: usize, level: usize, leaf_node: usize },
    Undefined,
    /// more than one designation: the tree is ambiguous for this header, SCPI says nothing
    Ambiguous,
    /// matching outside the specified domain (leading-zero suffix)
    Unspecified,
}

impl RTree {
    pub fn from_specs(root_children: &[Spec]) -> RTree {
        let mut t = RTree { nodes: vec![RNode { name: vec![], default: false, handler: None, parent: None, children: vec![] }], leaves: vec![] };
        fn add(t: &mut RTree, parent: usize, s: &Spec) {
            let id = t.nodes.len();
            t.nodes.push(RNode { name: s.name.clone(), default: s.default, handler: None, parent: Some(parent), children: vec![] });
            t.nodes[parent].children.push(id);
            match &s.kind {
                SpecKind::Leaf(h) => {
                    t.nodes[id].handler = Some(*h);
                    t.leaves.push(id);
                }
                SpecKind::Branch(sub) => {
                    for c in sub {
                        add(t, id, c);
                    }
                }
            }
        }
        for s in root_children {
            add(&mut t, 0, s);
        }
        t
    }

    /// path of node ids from the root (exclusive) down to `n` (inclusive)
    pub fn path(&self, n: usize) -> Vec<usize> {
        let mut v = vec![];
        let mut c = n;
        while let Some(p) = self.nodes[c].parent {
            v.push(c);
            c = p;
        }
        v.reverse();
        v
    }

    pub fn is_leaf(&self, n: usize) -> bool {
        self.nodes[n].handler.is_some()
    }

    /// Resolve `mnems` (non-empty) relative to branch `level`.
    pub fn resolve(&self, level: usize, mnems: &[&[u8]]) -> Res {
        let mut found: Vec<(usize, usize, usize)> = vec![];
        let mut unspecified = false;
        for &leaf in &self.leaves {
            let p = self.path(leaf);
            // remainder below `level`
            let rem: &[usize] = if level == 0 {
                &p[..]
            } else {
                match p.iter().position(|x| *x == level) {
                    Some(i) => &p[i + 1..],
                    None => continue,
                }
            };
            if rem.is_empty() {
                continue;
            }
            // greedy order-preserving embedding; a node that matches the next mnemonic is taken,
            // otherwise it must be optional
            let mut k = 0usize;
            let mut ok = true;
            let mut last_named: Option<usize> = None;
            for &n in rem {
                let nd = &self.nodes[n];
                let m = if k < mnems.len() && !nd.name.is_empty() { ref_match(&nd.name, mnems[k]) } else { Some(false) };
                match m {
                    None => {
                        unspecified = true;
                        ok = false;
                        break;
                    }
                    Some(true) => {
                        k += 1;
                        last_named = Some(n);
                    }
                    Some(false) => {
                        if !nd.default {
                            ok = false;
                            break;
                        }
                    }
                }
            }
            if ok && k == mnems.len() {
                if let Some(ln) = last_named {
                    let lvl = self.nodes[ln].parent.unwrap();
                    found.push((self.nodes[leaf].handler.unwrap(), lvl, leaf));
                }
            }
        }
        found.dedup();
        if unspecified && found.is_empty() {
            return Res::Unspecified;
        }
        match found.len() {
            0 => Res::Undefined,
            1 => Res::Leaf { handler: found[0].0, level: found[0].1, leaf_node: found[0].2 },
            _ => Res::Ambiguous,
        }
    }
}
