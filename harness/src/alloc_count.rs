//! Counting global allocator (thread-local counters), used by C11 to attribute heap traffic to
//! `Node::run`. Counting is only active between `start()` and `stop()` on the calling thread.

use std::alloc::{GlobalAlloc, Layout, System};
use std::cell::Cell;

pub struct CountingAlloc;

thread_local! {
    static ACTIVE: Cell<bool> = const { Cell::new(false) };
    static ALLOCS: Cell<u64> = const { Cell::new(0) };
    static REALLOCS: Cell<u64> = const { Cell::new(0) };
    static BYTES: Cell<u64> = const { Cell::new(0) };
}

#[inline]
fn note(bytes: usize, re: bool) {
    let _ = ACTIVE.try_with(|a| {
        if a.get() {
            if re {
                let _ = REALLOCS.try_with(|c| c.set(c.get() + 1));
            } else {
                let _ = ALLOCS.try_with(|c| c.set(c.get() + 1));
            }
            let _ = BYTES.try_with(|c| c.set(c.get() + bytes as u64));
        }
    });
}

unsafe impl GlobalAlloc for CountingAlloc {
    unsafe fn alloc(&self, l: Layout) -> *mut u8 {
        note(l.size(), false);
        System.alloc(l)
    }
    unsafe fn dealloc(&self, p: *mut u8, l: Layout) {
        System.dealloc(p, l)
    }
    unsafe fn alloc_zeroed(&self, l: Layout) -> *mut u8 {
        note(l.size(), false);
        System.alloc_zeroed(l)
    }
    unsafe fn realloc(&self, p: *mut u8, l: Layout, n: usize) -> *mut u8 {
        note(n, true);
        System.realloc(p, l, n)
    }
}

/// Start counting on this thread (resets the counters).
pub fn start() {
    ALLOCS.with(|c| c.set(0));
    REALLOCS.with(|c| c.set(0));
    BYTES.with(|c| c.set(0));
    ACTIVE.with(|a| a.set(true));
}

/// Stop counting; returns (allocs, reallocs, bytes) seen since `start`.
pub fn stop() -> (u64, u64, u64) {
    ACTIVE.with(|a| a.set(false));
    (
        ALLOCS.with(|c| c.get()),
        REALLOCS.with(|c| c.get()),
        BYTES.with(|c| c.get()),
    )
}
