#!/usr/bin/env python3
"""Regenerates /verif/MANIFEST.json from lib/propdefs.py (single source of truth for the registered checks)."""
import json, os, sys
ROOT = os.path.dirname(os.path.dirname(os.path.abspath(__file__)))
sys.path.insert(0, os.path.join(ROOT, "lib"))
from propdefs import PROPS, NOT_APPLICABLE

ALL = ["C%02d" % i for i in range(1, 21)]
checks = []
for pid in sorted(PROPS):
    p = PROPS[pid]
    checks.append({
        "property_id": pid,
        "quick_cmd": "./check %s --tier quick" % pid,
        "thorough_cmd": "./check %s --tier thorough" % pid,
        "evidence_file": "/verif/evidence/%s.json" % pid,
        "replay_cmd_template": "./check %s --replay {path}" % pid,
        "engine": "vh",
        "level_claimed": {
            "category": "exploration",
            "text": p.get("level_text", "Exploration by runtime monitoring: the real library code is executed (release and debug/overflow-check builds%s) under generated, "
                                       "boundary-directed and fault-injected workloads while an oracle that shares no code with the library judges every execution. "
                                       "'Held' means: no divergence on the executions explored (their number and kinds are in the evidence); nothing is claimed about inputs the generators do not reach. "
                                       "Sub-spaces enumerated completely are flagged exhaustive in the evidence but do not change the level." % (", Miri" if any(st["flavour"] == "miri" for st in p["plan"]["quick"]) else "")),
            "design_ref": p.get("design_ref", "DESIGN.md section 4, " + pid),
        },
        "level_note": p.get("level_note", "Trusted base / assumptions: " + "; ".join(p["assumptions"]) + ". Coverage is what the generators reach; "
                                         "see evidence coverage.rule, coverage.observed and coverage.exhaustive_subspaces."),
        "technique": p["technique"],
    })
na = [{"property_id": pid, "reason": NOT_APPLICABLE.get(pid, "check not built yet in this revision of /verif (work in progress)")} for pid in ALL if pid not in PROPS]
m = {
    "version": 1,
    "setup_cmd": "./check --setup",
    "hooks": {
        "guard": "scpi_rs_verif (cfg flag; unused: every observation point is public API, no source hooks were added)",
        "enable": "not needed: the harness (harness/) depends on /repo/scpi, /repo/scpi-contrib and /repo/scpi-derive by path and instruments through the Device/Command/Formatter/GlobalAlloc traits",
        "baseline_off_cmd": "cd /repo && cargo test --workspace --no-fail-fast --offline",
        "source_commits": [],
        "add_only": True,
    },
    "engines": [{"name": "vh", "path": "harness/", "serves_properties": sorted(PROPS), "kind_free_text": "Rust harness: workload generators, reference-model oracles, recording/fault-injecting Device/Command/Formatter, counting allocator; run in release, debug(assertions+overflow checks), Miri and ASan builds by ./check"}],
    "checks": checks,
    "notes": "Runtime monitoring only. ./check <id> rebuilds the harness against /repo's working tree (path dependencies), runs the workloads, writes evidence/<id>.json; known_findings.json lists recorded defects.",
    "not_applicable": na,
}
with open(os.path.join(ROOT, "MANIFEST.json"), "w") as f:
    json.dump(m, f, indent=1)
    f.write("\n")
print("MANIFEST.json: %d checks, %d not claimed" % (len(checks), len(na)))
