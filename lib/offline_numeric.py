#!/usr/bin/env python3
"""Offline checker over the event log recorded by the harness (`vh C07|C08 --events FILE`).

Independent of the in-process Rust oracle and of every float parser: all arithmetic is exact
(int / fractions.Fraction); decimal->binary rounding is done here from first principles
(round to nearest, ties to even, gradual underflow, overflow to infinity).

Prints one JSON object: {"events":n,"checked":{...},"violations":[{"signature","detail"}...]}
"""
import json
import struct
import sys
from fractions import Fraction


def parse_nrf(lit):
    s = lit
    sign = 1
    if s[0] in "+-":
        sign = -1 if s[0] == "-" else 1
        s = s[1:]
    e = 0
    for m in "Ee":
        if m in s:
            s, ex = s.split(m)
            e = int(ex)
            break
    if "." in s:
        a, b = s.split(".")
    else:
        a, b = s, ""
    digits = (a + b) or "0"
    return sign, int(digits), e - len(b)   # value = sign * digits * 10^(e10)


def exact(lit):
    sign, d, e10 = parse_nrf(lit)
    if d == 0:
        return Fraction(0)
    # exponents of many digits (1E-99999999999): far beyond every boundary that matters here (|x| < 5e-324 or
    # > 1.8e308, every integer type), so a stand-in of the same sign decides identically without 10**huge
    mag = len(str(d)) + e10
    if mag > 400:
        return Fraction(sign * 10 ** 400)
    if mag < -400:
        return Fraction(sign, 10 ** 400)
    if e10 >= 0:
        return Fraction(sign * d * 10 ** e10)
    return Fraction(sign * d, 10 ** (-e10))


def round_binary(x, p, emin, emax):
    """nearest binary float with p-bit significand; returns Fraction or 'inf'/'-inf'; sign of zero via second value"""
    if x == 0:
        return Fraction(0)
    s = -1 if x < 0 else 1
    a = abs(x)
    e = a.numerator.bit_length() - a.denominator.bit_length()
    if Fraction(2) ** e > a:
        e -= 1
    elif Fraction(2) ** (e + 1) <= a:
        e += 1
    e = max(e, emin)
    scale = e - p + 1
    q = a / (Fraction(2) ** scale)
    n = q.numerator // q.denominator
    r = q - n
    if r > Fraction(1, 2) or (r == Fraction(1, 2) and n % 2 == 1):
        n += 1
    val = Fraction(n) * (Fraction(2) ** scale)
    if val >= Fraction(2) ** (emax + 1):
        return "inf" if s > 0 else "-inf"
    return s * val


def bits64(v, negative):
    if v == "inf":
        return 0x7FF0000000000000
    if v == "-inf":
        return 0xFFF0000000000000
    f = float(v)
    b = struct.unpack(">Q", struct.pack(">d", f))[0]
    if v == 0 and negative:
        b |= 1 << 63
    return b


def bits32(v, negative):
    if v == "inf":
        return 0x7F800000
    if v == "-inf":
        return 0xFF800000
    b = struct.unpack(">I", struct.pack(">f", float(v)))[0]
    if v == 0 and negative:
        b |= 1 << 31
    return b


def nearest_ints(x):
    fl = x.numerator // x.denominator
    r = x - fl
    if r > Fraction(1, 2):
        return {fl + 1}
    if r == Fraction(1, 2):
        return {fl, fl + 1}
    return {fl}


def main():
    path = sys.argv[1]
    out = {"events": 0, "checked": {}, "violations": []}
    seen_sig = {}

    def viol(sig, detail):
        seen_sig[sig] = seen_sig.get(sig, 0) + 1
        if seen_sig[sig] <= 3:
            out["violations"].append({"signature": sig, "detail": detail})

    def cnt(k):
        out["checked"][k] = out["checked"].get(k, 0) + 1

    for line in open(path, errors="replace"):
        line = line.strip()
        if not line:
            continue
        try:
            ev = json.loads(line)
        except Exception:
            continue  # a line cut off by the event cap
        out["events"] += 1
        lit = ev["lit"]
        try:
            x = exact(lit)
        except Exception:
            cnt("unparsable-literal")
            continue
        if ev["k"] == "int":
            lo, hi = int(ev["min"]), int(ev["max"])
            cands = set(nearest_ints(x))
            fl = round_binary(x, 24, -126, 127) if ev["single"] else round_binary(x, 53, -1022, 1023)
            if fl not in ("inf", "-inf"):
                cands |= nearest_ints(fl)
            else:
                cands.add(10 ** 40 if fl == "inf" else -10 ** 40)
            inr = {c for c in cands if lo <= c <= hi}
            any_out = len(inr) != len(cands)
            cnt("int")
            if "ok" in ev:
                v = int(ev["ok"])
                if v not in inr:
                    viol("C07:offline:value-not-among-acceptable-results", {"literal": lit, "type": ev["ty"], "got": v, "acceptable": sorted(inr)})
            elif ev.get("err") == -222:
                if not any_out:
                    viol("C07:offline:representable-value-rejected", {"literal": lit, "type": ev["ty"], "acceptable": sorted(inr)})
            else:
                viol("C07:offline:unexpected-error", {"literal": lit, "type": ev["ty"], "err": ev.get("err")})
        elif ev["k"] == "float":
            neg = lit.lstrip().startswith("-")
            w64 = bits64(round_binary(x, 53, -1022, 1023), neg)
            w32 = bits32(round_binary(x, 24, -126, 127), neg)
            cnt("float")
            g64, g32 = ev["f64"], ev["f32"]
            if not isinstance(g64, str) or int(g64, 16) != w64:
                viol("C08:offline:f64-not-correctly-rounded", {"literal": lit, "got": g64, "expected": "%016x" % w64})
            if not isinstance(g32, str) or int(g32, 16) != w32:
                viol("C08:offline:f32-not-correctly-rounded", {"literal": lit, "got": g32, "expected": "%08x" % w32})
        elif ev["k"] == "bool":
            a = abs(x)
            cnt("bool")
            if "ok" not in ev:
                viol("C08:offline:bool-numeric-rejected", {"literal": lit, "err": ev.get("err")})
            else:
                got = ev["ok"]
                ok = (got is False and a <= Fraction(1, 2)) or (got is True and a >= Fraction(1, 2))
                if not ok:
                    viol("C08:offline:bool-wrong", {"literal": lit, "got": got})
    out["violation_counts"] = seen_sig
    print(json.dumps(out))


if __name__ == "__main__":
    main()
