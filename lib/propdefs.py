"""Per-property plan (which harness flavours / stages run in which tier), evidence texts and event floors."""

COMMON_ASSUME = [
    "rustc/cargo (stable 1.95 for release/debug, nightly for Miri/ASan) compile /repo faithfully",
    "the harness's reference models (harness/src/refm) encode the property statement correctly; they share no code with /repo",
    "cases are generated from VERIF_SEED deterministically; what is not generated is not covered",
]

REL = {"flavour": "release", "name": "release"}
REL_EV = {"flavour": "release", "name": "release", "events": "offline_numeric"}
DBG = {"flavour": "debug", "name": "debug"}
# the library built with its cargo feature `compact` (release profile), reduced workload
COMPACT = {"flavour": "compact", "name": "compact-feature", "args": ["--scale", "0.3"]}


def miri(shards=16, timeout=900, args=None, budget=100):
    # tiny workloads sized for the interpreter (~30-60 s per shard); the budget is a safety net: a shard stops
    # starting new cases after it and says so in the evidence notes
    return {"flavour": "miri", "name": "miri", "shards": shards, "timeout": timeout, "args": ["--tiny"] + (args or []), "budget_s": budget}


def asan(args=None, timeout=3600):
    return {"flavour": "asan", "name": "asan", "args": (args or []), "timeout": timeout}


PROPS = {}
NOT_APPLICABLE = {}


def P(pid, technique, rule, assumptions=None, quick=None, thorough=None, floors=None, **kw):
    PROPS[pid] = dict(technique=technique, rule=rule, assumptions=COMMON_ASSUME + (assumptions or []),
                      plan={"quick": quick or [REL, DBG], "thorough": thorough or [REL, DBG]}, floors=floors or {}, **kw)


RM = "runtime monitoring: "

P("C01", RM + "panic/overflow/internal-error/progress monitors over hostile generated inputs, trees and handler scripts in release + debug(overflow checks) builds, Miri and ASan on the boundary subset, bounded-exhaustive class-alphabet sweep",
  "inputs: messages that reach handlers with data of every kind, grammar-generated messages, their mutations and prefixes, token-fragment soup, random bytes (NUL/0xFF heavy), inputs up to 64 KiB; "
  "trees: random depth<=5/fan-out<=6 incl. ambiguous and degenerate ones (empty / over-long names, several defaults, empty branches); handler scripts pulling random typed conversions (31 kinds) at random positions; "
  "direct drive of Tokenizer / every TryFrom<Token> / ChannelList / NumericList up to the first error; all strings of length<=5 (quick) / 6 (thorough) over 22 class representatives. "
  "Monitors: catch_unwind + panic hook (any panic is a violation), -300 'Internal parser error' detection, every Ok token must consume input, bounded token/handler counts, wall-clock watchdog with three isolated re-runs. "
  "Stage many-units: well-formed messages of 500..140 000 units that all execute (the native stack must not grow with the unit count; a fatal signal is reported with the case as witness). Non-trivial = distinct input bytes (sweep: inputs that reach a handler).",
  ["termination is decided as bounded progress + watchdog; a watchdog suspect that does not reproduce is reported inconclusive, never as a violation",
   "absence of Miri/ASan reports covers only the executions interpreted; ASan is a red-zone tool"],
  quick=[REL, DBG, dict(COMPACT, args=["--stages", "boundary,direct", "--scale", "0.3"]), asan(["--stages", "boundary,run,direct"]), miri(16, 1200)], thorough=[REL, DBG, dict(COMPACT, args=["--stages", "boundary,direct,run", "--scale", "0.2"]), miri(16, 3600, ["--tier", "thorough"], 1500), asan(["--scale", "0.35"])],
  floors={"quick": {"evaluations": 3_000_000, "boundary.runs": 5_000, "inputs.reaching-a-handler": 100_000, "direct.tokens": 200_000},
          "thorough": {"evaluations": 100_000_000, "inputs.reaching-a-handler": 5_000_000}})

P("C02", RM + "recorded handler invocations compared with an independent header resolver (order-preserving path embedding) over random unambiguous trees and message histories",
  "random unambiguous trees (depth<=5, fan-out<=6, default leaves/branches, anonymous default leaf, suffix siblings, common commands) x histories of 1-4 messages x 1-8 units: absolute, relative, common headers, "
  "optional nodes omitted or spelled, short/long form, random case, suffix 1 added/dropped, plus hostile units (past a leaf, stops on a branch, near miss, needs going up, other suffix). Stage macro-tree: the same oracle on a tree written with the library's Root!/Branch!/Leaf! macros (every arm); handlers answer arbitrary meta() hints. "
  "Oracle: refm/resolver.rs designates handler and new level per unit; undefined header => -113, no invocation for it nor after it, hook once. Non-trivial = distinct (tree shape, unit-kind sequence).",
  ["ambiguous trees are out of scope (SCPI designates nothing); generator rejects them and the resolver reports any it meets"],
  floors={"quick": {"evaluations": 300_000, "messages.undefined-header": 30_000, "messages.ok": 100_000}, "thorough": {"evaluations": 10_000_000}})

P("C04", RM + "library token stream and handler-visible tokens compared element-by-element (kinds and byte ranges) with an independent three-valued IEEE 488.2 reference lexer; end-to-end rejection check for ill-formed input; bounded-exhaustive sweep",
  "grammar-generated messages (all seven data types, separators/terminators inside strings, blocks, expressions, every legal white-space placement, indefinite block last, with/without NL), 14 targeted corruption operators, "
  "and all strings of length<=5 (quick)/6 (thorough) over 22 class representatives. Reference Accept => token sequence and payload byte ranges identical (pointer arithmetic), handlers see exactly the data of their unit; "
  "Reject => Node::run with omnivorous handlers on a maximally permissive tree returns a command error; Unspecified zones give no verdict. Non-trivial = distinct accepted/rejected inputs. Every unit's data region is also lexed through Tokenizer::new_params (same elements, same byte ranges).",
  ["the reference lexer is my reading of 488.2 section 7; zones the standard/project leave open are listed in DESIGN.md 3.1 and give no verdict",
   "white space before the first header is attributed to Node::run (compared end-to-end), the bare Tokenizer is compared from the first non-blank byte"],
  floors={"quick": {"evaluations": 5_000_000, "generated.ref.accept": 500_000, "corrupted.ref.reject": 300_000, "tokens.offered-to-handlers": 1_000_000},
          "thorough": {"evaluations": 100_000_000}})

P("C05", RM + "fault injection (handler-returned errors, arity faults, undefined headers, syntax faults, response-buffer exhaustion at every capacity) with recorded invocation order and error-hook calls checked against the expected prefix",
  "random trees; k-unit messages (k<=8); for every fault kind the fault is placed in unit i (first/middle/last/only): handler-returned error of every class with/without extended text, too few / too many parameters, "
  "undefined header, 14 kinds of syntax fault (confirmed ill-formed by the reference lexer), and genuine ArrayVec<u8,CAP> exhaustion for every CAP below the full response length (fails inside a unit, at the ';', at the terminator). "
  "Oracle: units before i invoked exactly once in order, nothing after i, returned error == injected one, hook called exactly once with an equal error, never on success. Non-trivial = distinct (fault kind, position, message).",
  floors={"quick": {"evaluations": 1_000_000, "messages.failed-as-expected": 800_000, "messages.succeeded": 20_000}, "thorough": {"evaluations": 30_000_000}})

P("C06", RM + "recorded parameter offers (kind, pointer, length) inside handlers compared with the reference lexer's data elements of the same unit; arity oracle for -109/-108",
  "random trees; handlers with m required + o optional pulls (m,o in 0..4); units carrying n data elements of all seven kinds with n below, within and above [m, m+o], at first/middle/last/only position, every ending style. "
  "Oracle: offered tokens are exactly elements 1..min(n,m+o) with identical byte ranges inside the unit's own span; n<m => -109 and nothing later; n>m+o => -108 and the next unit is not invoked; surplus optional pulls yield None.",
  floors={"quick": {"evaluations": 500_000, "offers.checked": 2_000_000, "messages.err-108": 50_000, "messages.err-109": 50_000}, "thorough": {"evaluations": 20_000_000}})

P("C07", RM + "offline checker (exact rational arithmetic in Python) over the recorded conversion event log + in-process differential oracle with exact decimal arithmetic (nearest-integer sets incl. double-resolution tolerance) over boundary-directed literals for all ten integer types; Miri on the boundary set",
  "literals: every NRf spelling of values at type bound +-{0,0.4,0.49..9,0.5,0.50..01,0.6,1}, 2^52/2^53/2^63/2^64 neighbourhoods, zero in 16 spellings, random literals with exponents -400..400 and up to 25 digits, "
  "exhaustive k/8 grid for the 8-bit types; non-decimal literals through the real lexer; MIN/MAX keywords and near misses; suffixed and non-numeric elements. "
  "Oracle: acceptable results = nearest integers of the exact value (both at a tie) united with those of the correctly rounded double/single (Rust core parser); all representable => one of them, none => -222, mixed => either. Non-trivial = distinct (literal,type).",
  ["correct rounding of decimal->binary by Rust's core library is trusted as the second reference"],
  quick=[REL_EV, DBG, COMPACT, miri(16, 900)], thorough=[REL_EV, DBG, COMPACT, miri(16, 3600, ["--tier", "thorough"], 1500)],
  floors={"quick": {"evaluations": 1_000_000, "offline.checked.int": 20_000, "decimal.in-range": 200_000, "decimal.out-of-range": 200_000, "decimal.tie": 5_000}, "thorough": {"evaluations": 40_000_000}})

P("C08", RM + "offline checker (decimal->binary rounding from first principles with fractions.Fraction) over the recorded event log + in-process differential oracle: float conversions against Rust core's correctly rounded parser (bit equality) incl. exact midpoint expansions; exact-decimal oracle for booleans; target x element-kind acceptance matrix",
  "float literals: zero spellings, exponents -400..400, shortest representations of random f32/f64, exact decimal expansions of f32 midpoints (halfway cases), 17-20 digit cases, overflow/underflow thresholds, powers of two and ten, 30-800 digit strings; "
  "boolean numerics around 0.5 and beyond 64 bits, ON/OFF and near misses; INF/NINF/NAN/MAX/MIN keywords and near misses; every (target, element kind) pair for 10 targets. Non-trivial = distinct literals / matrix cells.",
  ["Rust core's str::parse::<f32/f64> is correctly rounded (independent of lexical-core)"],
  quick=[REL_EV, DBG, COMPACT], thorough=[REL_EV, DBG, COMPACT],
  floors={"quick": {"evaluations": 3_000_000, "offline.checked.float": 30_000, "offline.checked.bool": 5_000, "f64.normal": 300_000, "f32.subnormal": 5_000, "matrix.rejecting-cell": 500_000}, "thorough": {"evaluations": 100_000_000}})

P("C09", RM + "round-trip oracle: emitted response text decoded by independent decoders and by the library's own parser must give back the formatted value; exhaustive for 8/16-bit integers (and all 2^32 f32 patterns in thorough); Miri on extreme numbers",
  "integers: all u8/i8/u16/i16 (decimal; #H/#Q/#B for non-negative), boundary+random 32/64/size; f32: strided sample of all bit patterns (quick) / all 2^32 (thorough); f64: subnormals, powers of 2 and 10, 2^53 neighbourhood, 17-digit cases, random bits; "
  "bool; ASCII strings with quotes/separators/control characters (non-ASCII must be refused); blocks around every header-width change up to 10^4 (10^6 thorough); &str; character and expression data; Vec/ArrayVec lists (empty refused); "
  "derived enums incl. suffix siblings; every standard error (found by sweeping get_error over all i16) and custom errors with/without extended text. Lists of strings/floats/booleans/error items/enums; every kind of value formatted behind a header, earlier data or an earlier unit and into ArrayVec (text must not depend on formatter contents/kind); relations between message and extended text (equal, prefix, empty). Non-trivial = distinct values.",
  ["NaN/infinities are only checked against the SCPI sentinels; lower-case exponent mark (lexical-core's 1.0e10, pinned by the project's own tests) is counted as an observation, not judged"],
  quick=[REL, DBG, COMPACT, miri(16, 900)], thorough=[REL, DBG, COMPACT, miri(16, 3600, ["--tier", "thorough"], 1500), asan(["--stages", "int,f64,text,errors", "--scale", "0.3"])],
  floors={"quick": {"evaluations": 5_000_000, "f32.checked": 3_000_000, "string.checked": 100_000, "list.checked": 100_000}, "thorough": {"evaluations": 4_000_000_000}})

P("C10", RM + "byte-exact comparison of the formatter buffer with the expected framing computed from the executed query units, plus structural re-check by an independent response splitter",
  "random trees; messages of 1-10 units mixing events and queries (1-5 data of 19 value kinds, 0-2 response headers), ended by EOI, NL, CRLF, white space, white space+NL, trailing ';' (+NL / +white space); Vec<u8> and ArrayVec<u8,4096> formatters. "
  "Oracle: ';'-join of unit texts (headers ':'-joined, one space, data ','-joined, each datum formatted alone) + exactly one NL iff non-empty. Non-trivial = distinct (response, ending, unit count).",
  floors={"quick": {"evaluations": 500_000, "response-units.decoded": 500_000, "messages.without-output": 10_000}, "thorough": {"evaluations": 30_000_000}})

P("C11", RM + "capacity sweep with the genuine ArrayVec<u8,CAP> formatter for every CAP from 0 past the response length, compared with the growable run; counting global allocator around Node::run; Miri on the sweep",
  "framing messages (<=4 units) and hostile/corrupted/random inputs; every capacity 0..len+2 (168 instantiations up to 4096). Oracle: CAP>=len => Ok and identical bytes; else exactly -225, hook once, buffer <= CAP and a prefix of the response, no extra handler; "
  "failing messages fail at every capacity; allocation count across Node::run (ArrayVec formatter, non-allocating handlers) must be 0. Non-trivial = distinct (response, capacity) with exhaustion.",
  ["capacities are compile-time; 168 instantiations are explored", "allocations are counted per thread by a wrapper around the system allocator"],
  quick=[REL, DBG, asan(), miri(16, 900)], thorough=[REL, DBG, miri(16, 3600, ["--tier", "thorough"], 1500), asan(["--scale", "0.2"])],
  floors={"quick": {"evaluations": 500_000, "does-not-fit": 300_000, "fits": 50_000, "runs.allocation-counted": 500_000}, "thorough": {"evaluations": 20_000_000}})

P("C12", RM + "lock-step comparison of every queue operation with a reference FIFO (unique ids per pushed error) for both provided implementations and capacities 1..8,16,64; Miri",
  "histories of 4-44 operations biased to hover around full / empty (overflow-pop-overflow cycles, clear at full, pop on empty) plus 10^4-operation histories; ArrayVec<Error,N> for N in 1..8,16,64 and Vec<Error>; errors with unique custom codes/messages, standard codes and extended texts. "
  "After every operation num_errors/is_empty must agree with the model; at the end the queue is drained and compared. Non-trivial = distinct operation/fullness sequences that overflowed or popped on empty.",
  quick=[REL, DBG, miri(16, 900)], thorough=[REL, DBG, miri(16, 3600, ["--tier", "thorough"], 1500)],
  floors={"quick": {"evaluations": 200_000, "histories.with-overflow": 50_000, "histories.with-pop-on-empty": 50_000}, "thorough": {"evaluations": 10_000_000}})

STATUS_RULE = ("histories of 5-200 messages (1-4 units each) against a device wired as in the documented example (handle_error->push_error, stb->scpi_stb, cls->scpi_cls, opc->scpi_opc), three queue back-ends, "
               "interleaved with device-side condition updates (walking ones, complements, double toggles, bit 15) and the message-available flag both ways; vocabulary: all IEEE 488.2 common commands, STATus:OPERation/QUEStionable "
               "EVENt/CONDition/ENABle/PTR/NTR (decimal and #H/#Q/#B parameters incl. 65535/65536/-1), STATus:PRESet, SYSTem:ERRor NEXT/COUNt/ALL, handler-raised errors of every class, invalid messages of every kind. "
               "After every message the response text and the complete device state (queue contents, ESR, ESE, SRE, both register sets) are compared with the reference model. Also: unread backlogs around 2^12/2^16/2^17 read back with COUNt?/NEXT?/ALL?, device-side ScpiDevice::preset_register / push_error calls, a tree declared through the extended scpi_register! arm, *IDN? with empty fields, queue order after a read whose answer did not fit; under C16 a plain IEEE 488.2 device that keeps the provided stb() (stage plain-488.2-device). Non-trivial = distinct unit-kind sequences per history.")

P("C13", RM + "history monitor: error queue, ESR and SYST:ERR / *ESR? responses in lock-step with a reference status model (emphasis on failing messages and queue reads)", STATUS_RULE,
  ["where *STB? depends on the summary-bit definition (project: condition&enable, SCPI-99: event&enable) either answer is accepted"],
  floors={"quick": {"evaluations": 1_000_000, "states.compared": 500_000, "messages.failed.handler-error": 50_000}, "thorough": {"evaluations": 50_000_000}})

P("C14", RM + "exhaustive enumeration of all 65536 error numbers against the class table written out from IEEE 488.2 / SCPI-99, plus a cause-known workload classifying library-raised errors",
  "all i16 values through Error::custom / ErrorCode::Custom / get_error (code round-trip, class bit, printable non-empty message); 27 syntax/header fault kinds and 10 targets x 7 element kinds (must be command errors), "
  "range / not-in-set / buffer-exhausted faults (must be execution errors). Non-trivial = distinct codes and fault descriptions.",
  exhaustive_is_whole_claim=False,
  floors={"quick": {"evaluations": 500_000, "standard-codes": 100, "cause.wrong-element-type": 100_000}, "thorough": {"evaluations": 5_000_000}})

P("C15", RM + "history monitor: both event-register sets in lock-step with a per-bit latch model under arbitrary condition updates, filter/enable writes, reads, *CLS and STATus:PRESet", STATUS_RULE,
  floors={"quick": {"evaluations": 1_000_000, "states.compared": 500_000, "device-side.condition-updates": 200_000}, "thorough": {"evaluations": 50_000_000}})

P("C16", RM + "history monitor: *STB? composition (incl. MAV and MSS), *ESE/*SRE/*ESR?/*OPC/*OPC?/*TST?/*CLS/*RST/*WAI in lock-step with a reference 488.2 status model", STATUS_RULE,
  ["'summary' is accepted both as the project documents it (enabled condition bits) and as SCPI-99 defines it (enabled event bits); the statement does not pick one"],
  floors={"quick": {"evaluations": 1_000_000, "states.compared": 500_000}, "thorough": {"evaluations": 50_000_000}})

P("C17", RM + "differential oracle: NumericValue<T> recognition against the keyword list and the underlying T conversion, resolution against a reference resolver, invariant min<=v<=max on every success; 14 underlying types",
  "data elements: decimal literals in every spelling (on, next to and far from the bounds), MIN/MAX/DEF/UP/DOWN in short/long form and random case, 22 near misses (MAXI, DEFA, UPP, INF, ...), non-numeric elements; "
  "types: 10 integer types, f32, f64, Time<f32>, Frequency<f32>; bounds min<=max incl. min==max, default inside or absent. Ranges open on either side (infinite bounds), one NaN limit (values must be refused), default outside the bounds (default or -222), NumericBuilder::new, setters called repeatedly and in every order. Every element also through Parameters::next_data / next_optional_data::<NumericValue<T>>; stage arithmetic: * k, / k (k>0), + a, - a, map on a parsed value before resolution (keywords stay what they are). Non-trivial = distinct (element, type).",
  quick=[REL, DBG, COMPACT], thorough=[REL, DBG, COMPACT],
  floors={"quick": {"evaluations": 2_000_000, "elements.keyword": 50_000, "resolve.value-on-bound": 10_000}, "thorough": {"evaluations": 100_000_000}})

P("C18", RM + "differential oracle: an independent SCPI-99 suffix table (exact factors, temperature offsets) against the converted quantity in f32 and f64 storage; rejection of undefined suffixes; amplitude/decibel classification",
  "14 quantities x every defined suffix x random case patterns x NRf literals (value compared within 3e-6 / 1e-12 relative, no verdict outside 1e-30..1e30 / 1e-290..1e290), bare numbers, through the real lexer; "
  "undefined suffixes: suffixes of other quantities, undefined multipliers, one-character near misses, random strings <=12; non-numeric elements; PK/PP/RMS and DBV/DBMV/DBUV classification with the number untouched. 130 alias spellings (DEGC, VOLTS, MSEC...), every suffix with one letter added, DB glued to linear suffixes, SCPI sentinel numbers as literals. Non-trivial = distinct (quantity, suffix spelling, literal).",
  ["bare temperature is accepted as kelvin or degree Celsius; ANN as 365 or 365.25 days; EV within 1e-5"],
  quick=[REL, DBG, COMPACT], thorough=[REL, DBG, COMPACT],
  floors={"quick": {"evaluations": 2_000_000, "undefined-suffix.rejected": 500_000}, "thorough": {"evaluations": 100_000_000}})

P("C19", RM + "items yielded by ChannelList / NumericList / ChannelSpec iterators and tuple conversions compared with a reference list parser, incl. the listed corruption classes; Miri on the cursor arithmetic",
  "grammar-generated lists of 0-20 entries: 1-3 dimensional specs, ranges, quoted path names with any ASCII incl. doubled quotes; numeric entries in every NRf spelling, ranges; corruptions: leading/doubled comma, foreign character in entry position, "
  "range dimension mismatch, third range end, missing separator (numeric lists); directly and through the lexer + Parameters::next_data. Every other way the Iterator trait offers of walking a well-formed list/spec (nth after next, count, last, step_by, skip, size_hint) must agree with plain iteration; channel numbers at the limits of isize and narrower widths, minus zero. Non-trivial = distinct expressions.",
  ["white space inside list expressions and a missing separator between channel-list entries are not specified by the statement and are not generated"],
  quick=[REL, DBG, COMPACT, miri(16, 900)], thorough=[REL, DBG, COMPACT, miri(16, 3600, ["--tier", "thorough"], 1500)],
  floors={"quick": {"evaluations": 1_000_000, "spec.iterated": 500_000, "numeric.corruption.missing-separator": 5_000}, "thorough": {"evaluations": 40_000_000}})

P("C20", RM + "generated programs: a committed corpus of 300 derived enum definitions (1851 variants) compiled into the harness; from_mnemonic / TryFrom<Token> / mnemonic() / response text monitored against the matching rule",
  "corpus: 1-16 variants, unit and single-field variants, mnemonics with/without lower-case tail and suffix, siblings differing only in suffix, explicit ...1 next to ...2 (tools/gen_enums.py guarantees pairwise non-matching mnemonics). "
  "Per variant: all case patterns of short/long form with suffix variants, prefixes/extensions, single edits, random data <=12, the other variants' forms; other element kinds. Plus 23 realistic definitions (ON/OFF, MIN/MAX/DEF, TRUE/FALSE, trigger sources, the library's own NumericValueQuery ...). Non-trivial = distinct (enum, datum) near a defined mnemonic.",
  ["the corpus is finite (300 definitions); leading-zero suffixes give no verdict"],
  floors={"quick": {"evaluations": 3_000_000, "candidates.designating-a-variant": 500_000, "other-element-kinds.rejected-with-104": 10_000}, "thorough": {"evaluations": 100_000_000}})

PROPS["C03"] = {
    "technique": "runtime monitoring: differential oracle (property iff) over generated and bounded-exhaustive (definition,candidate) pairs, release+debug builds",
    "rule": "definitions of SCPI shape (1-6 upper-case, 0-8 lower-case, optional numeric suffix, <=12 chars) x candidates: all case patterns of short and long form "
            "with suffix variants, all prefixes/extensions, single-character edits, random strings; plus a bounded-exhaustive sub-space. The oracle is the "
            "property's iff (refm/mnemonic.rs) applied to mnemonic_match, Token::match_program_header (both token kinds) and mnemonic_compare. "
            "A pair is counted non-trivial when candidate and definition share their first letter (near miss or match); distinct = distinct (definition,candidate) byte pairs.",
    "assumptions": COMMON_ASSUME + ["a numeric suffix written with leading zeros (e.g. 01) is outside the specified domain: no verdict is given on it"],
    "plan": {"quick": [REL, DBG], "thorough": [REL, DBG]},
    "floors": {"quick": {"evaluations": 2_000_000, "expected.match": 100_000, "expected.nomatch": 100_000},
               "thorough": {"evaluations": 50_000_000, "expected.match": 1_000_000, "expected.nomatch": 1_000_000}},
}
