"""Per-property plan (which harness flavours / stages run in which tier), evidence texts and event floors."""

COMMON_ASSUME = [
    "rustc/cargo (stable 1.95 for release/debug, nightly for Miri/ASan) compile /repo faithfully",
    "the harness's reference models (harness/src/refm) encode the property statement correctly; they share no code with /repo",
    "cases are generated from VERIF_SEED deterministically; what is not generated is not covered",
]

REL = {"flavour": "release", "name": "release"}
DBG = {"flavour": "debug", "name": "debug"}


def miri(shards=16, timeout=900, args=None):
    return {"flavour": "miri", "name": "miri", "shards": shards, "timeout": timeout, "args": ["--tiny"] + (args or [])}


def asan(args=None, timeout=3600):
    return {"flavour": "asan", "name": "asan", "args": (args or []), "timeout": timeout}


PROPS = {}
NOT_APPLICABLE = {}

PROPS["C03"] = {
    "technique": "runtime monitoring: differential oracle (property iff) over generated and bounded-exhaustive (definition,candidate) pairs, release+debug builds",
    "rule": "definitions of SCPI shape (1-6 upper-case, 0-8 lower-case, optional numeric suffix, <=12 chars) x candidates: all case patterns of short and long form "
            "with suffix variants, all prefixes/extensions, single-character edits, random strings; plus a bounded-exhaustive sub-space. The oracle is the "
            "property's iff (refm/mnemonic.rs) applied to mnemonic_match, Token::match_program_header (both token kinds) and mnemonic_compare. "
            "A pair is counted non-trivial when candidate and definition share their first letter (near miss or match); distinct = distinct (definition,candidate) byte pairs.",
    "assumptions": COMMON_ASSUME + ["a numeric suffix written with leading zeros (e.g. 01) is outside the specified domain: no verdict is given on it"],
    "plan": {"quick": [REL, DBG], "thorough": [REL, DBG]},
    "floors": {"quick": {"evaluations": 2_000_000, "expected.match": 100_000, "expected.nomatch": 100_000},
               "thorough": {"evaluations": 50_000_000, "expected.match": 1_000_000, "expected.nomatch": 1_000_000}},
}
